---------------------------- MODULE YaeValues ----------------------------
(***************************************************************************)
(* Run-time values of yae, in exactly the shape the Go harness projects a  *)
(* *val.Val to (every nested component carries the dynamic type stored in  *)
(* it, so preservation can be judged on the projection):                   *)
(*   [k |-> "num", v |-> number]   [k |-> "str", v |-> text]               *)
(*   [k |-> "bool", v |-> BOOLEAN] [k |-> "time", v |-> unix seconds]      *)
(*   [k |-> "list", ty, els]                                               *)
(*   [k |-> "map",  ty, ents |-> << [kk, kt, val], ... >>]                 *)
(*        kk = kind of the key, kt = its key text (val.Key); yae has no    *)
(*        operation that recovers a key from a map, so (kk, kt) is all a   *)
(*        map ever knows about its keys.  ents: insertion sequence.        *)
(*   [k |-> "obj",  ty, vals]      positional, in the order of ITS OWN ty  *)
(*   [k |-> "maybe", ty, some, v]  v = [k |-> "nil"] when absent           *)
(*   [k |-> "fun",  ty, fid]       function value (dynamic calls)          *)
(* plus val.Equals, val.String (Render), val.Key, fun.stringify (Display). *)
(***************************************************************************)
EXTENDS YaeTypes

VNum(n) == [k |-> "num", v |-> n]
VStr(s) == [k |-> "str", v |-> s]
VBool(b) == [k |-> "bool", v |-> b]
VTime(t) == [k |-> "time", v |-> t]
VList(ty, els) == [k |-> "list", ty |-> ty, els |-> els]
VMap(ty, ents) == [k |-> "map", ty |-> ty, ents |-> ents]
VObj(ty, vals) == [k |-> "obj", ty |-> ty, vals |-> vals]
VNil == [k |-> "nil"]
VNothing(el) == [k |-> "maybe", ty |-> TMaybe(el), some |-> FALSE, v |-> VNil]
VJust(el, v) == [k |-> "maybe", ty |-> TMaybe(el), some |-> TRUE, v |-> v]
VFunV(ty, fid) == [k |-> "fun", ty |-> ty, fid |-> fid]
Ent(kk, kt, v) == [kk |-> kk, kt |-> kt, val |-> v]

TypeOfVal(v) ==
  CASE v.k = "num" -> TNum [] v.k = "str" -> TStr [] v.k = "bool" -> TBool [] v.k = "time" -> TTime
    [] v.k \in {"list", "map", "obj", "maybe", "fun"} -> v.ty
    [] OTHER -> [k |-> "none"]

(* C01: v has type T, and every component has the type its container declares *)
RECURSIVE WellFormed(_)
WellFormed(v) ==
  CASE v.k = "num" -> v.v.k \in {"fin", "big", "inf", "nan", "tau", "nzero", "raw"}
    [] v.k \in {"str", "bool"} -> TRUE
    [] v.k = "time" -> TRUE
    [] v.k = "list" -> v.ty.k = "list" /\ \A i \in 1..Len(v.els) :
                          WellFormed(v.els[i]) /\ TypeEq(TypeOfVal(v.els[i]), v.ty.el)
    [] v.k = "map" -> v.ty.k = "map" /\ \A i \in 1..Len(v.ents) :
                          /\ v.ents[i].kk = v.ty.key.k
                          /\ WellFormed(v.ents[i].val) /\ TypeEq(TypeOfVal(v.ents[i].val), v.ty.val)
    [] v.k = "obj" -> v.ty.k = "obj" /\ Len(v.vals) = Len(v.ty.fs) /\ \A i \in 1..Len(v.vals) :
                          WellFormed(v.vals[i]) /\ TypeEq(TypeOfVal(v.vals[i]), v.ty.fs[i].t)
    [] v.k = "maybe" -> v.ty.k = "maybe" /\ (v.some => WellFormed(v.v) /\ TypeEq(TypeOfVal(v.v), v.ty.el))
    [] v.k = "fun" -> v.ty.k = "fun"
    [] OTHER -> FALSE            \* nil component, unknown kind
HasType(v, T) == WellFormed(v) /\ TypeEq(TypeOfVal(v), T)

\* entries in a canonical order (by key text, then kind): Go maps have no order
\* ... and the type annotations in canonical form, records laid out in the order of their sorted field names: the order
\* in which a record type lists its fields, and the layout of a record value, are not observable (types that differ in it
\* are equal, C17) -- what is compared is which value sits under which NAME
RECURSIVE NormVal(_)
NormVal(v) ==
  CASE v.k = "list" -> [v EXCEPT !.ty = CanonType(@), !.els = [i \in 1..Len(v.els) |-> NormVal(v.els[i])]]
    [] v.k = "map" -> [v EXCEPT !.ty = CanonType(@),
                                !.ents = SortBy([i \in 1..Len(v.ents) |-> [v.ents[i] EXCEPT !.val = NormVal(@)]],
                                                LAMBDA a, b : SeqLT(a.kt, b.kt))]
    [] v.k = "obj" -> (IF v.ty.k # "obj" \/ Len(v.vals) # Len(v.ty.fs) THEN v
                       ELSE LET ct == CanonType(v.ty) IN
                            [k |-> "obj", ty |-> ct, vals |-> [i \in 1..Len(ct.fs) |-> NormVal(v.vals[FieldIdx(v.ty.fs, ct.fs[i].n)])]])
    [] v.k = "maybe" -> IF v.some THEN [v EXCEPT !.ty = CanonType(@), !.v = NormVal(@)] ELSE [v EXCEPT !.ty = CanonType(@)]
    [] v.k = "fun" -> [v EXCEPT !.ty = CanonType(@)]
    [] OTHER -> v

(* ---------------- val.Key : key text of a primitive ---------------- *)
KeyText(v) ==
  CASE v.k = "bool" -> IF v.v THEN N_true ELSE N_false
    [] v.k = "num" -> NumText(v.v)
    [] v.k = "str" -> Quote(v.v)
    [] v.k = "time" -> Quote(TimeText(v.v))
    [] OTHER -> <<>>
KeyKnown(v) == IF v.k = "num" THEN NumTextKnown(v.v) ELSE IF v.k = "time" THEN ("ns" \notin DOMAIN v \/ v.ns = 0) ELSE TRUE
EntIdx(ents, kk, kt) == IF \E i \in 1..Len(ents) : ents[i].kk = kk /\ ents[i].kt = kt
                        THEN CHOOSE i \in 1..Len(ents) : ents[i].kk = kk /\ ents[i].kt = kt ELSE 0
\* m.V[k.Key()] = v : replaces an existing entry, else appends
MapPut(ents, key, v) ==
  LET i == EntIdx(ents, key.k, KeyText(key)) IN
  IF i = 0 THEN Append(ents, Ent(key.k, KeyText(key), v)) ELSE [ents EXCEPT ![i].val = v]

(* ---------------- can the specification render v exactly? ---------------- *)
RECURSIVE TextKnown(_)
TextKnown(v) ==
  CASE v.k = "num" -> NumTextKnown(v.v)
    [] v.k = "str" -> \A i \in 1..Len(v.v) : QuotableCP(v.v[i])
    [] v.k = "list" -> \A i \in 1..Len(v.els) : TextKnown(v.els[i])
    [] v.k = "map" -> \A i \in 1..Len(v.ents) : TextKnown(v.ents[i].val)
    [] v.k = "obj" -> \A i \in 1..Len(v.vals) : TextKnown(v.vals[i])
    [] v.k = "maybe" -> v.some => TextKnown(v.v)
    [] v.k = "fun" -> FALSE
    [] v.k = "time" -> "ns" \notin DOMAIN v \/ v.ns = 0        \* fractional seconds in the text: not modelled
    [] OTHER -> TRUE

(* ---------------- val.String : canonical rendering ---------------- *)
RECURSIVE Render(_)
Render(v) ==
  CASE v.k = "num" -> NumText(v.v)
    [] v.k = "bool" -> IF v.v THEN N_true ELSE N_false
    [] v.k = "str" -> Quote(v.v)
    [] v.k = "time" -> TimeText(v.v)
    [] v.k = "list" -> Join([i \in 1..Len(v.els) |-> Render(v.els[i])], N_commasp, N_lbr, N_rbr)
    [] v.k = "map" ->
         IF v.ents = <<>> THEN N_emptymap
         ELSE LET es == SortBy(v.ents, LAMBDA a, b : SeqLT(a.kt, b.kt)) IN
              Join([i \in 1..Len(es) |-> es[i].kt \o N_colonsp \o Render(es[i].val)], N_commasp, N_lbr, N_rbr)
    [] v.k = "obj" ->
         \* canonical: fields sorted by name, whatever order the value stores them in
         LET idx == SortBy([i \in 1..Len(v.vals) |-> i], LAMBDA a, b : SeqLT(v.ty.fs[a].n, v.ty.fs[b].n)) IN
         Join([j \in 1..Len(idx) |-> v.ty.fs[idx[j]].n \o N_colonsp \o Render(v.vals[idx[j]])], N_commasp, N_lbrace, N_rbrace)
    [] v.k = "maybe" ->
         IF v.some THEN N_JustH \o TypeText(v.ty.el) \o N_lpar \o Render(v.v) \o N_rpar
         ELSE N_NothingH \o TypeText(v.ty.el) \o N_parens
    [] OTHER -> <<63>>

(* ---------------- fun.stringify : string(x) ---------------- *)
\* strings unquoted, objects in their own field order, maps sorted by key text
\* (the only order that does not depend on hash-map iteration)
RECURSIVE Display(_)
Display(v) ==
  CASE v.k = "num" -> NumText(v.v)
    [] v.k = "bool" -> IF v.v THEN N_true ELSE N_false
    [] v.k = "str" -> v.v
    [] v.k = "time" -> TimeText(v.v)
    [] v.k = "list" -> Join([i \in 1..Len(v.els) |-> Display(v.els[i])], N_commasp, N_lbr, N_rbr)
    [] v.k = "map" ->
         IF v.ents = <<>> THEN N_emptymap
         ELSE LET es == SortBy(v.ents, LAMBDA a, b : SeqLT(a.kt, b.kt)) IN
              Join([i \in 1..Len(es) |-> es[i].kt \o N_colonsp \o Display(es[i].val)], N_commasp, N_lbr, N_rbr)
    [] v.k = "obj" ->
         Join([i \in 1..Len(v.vals) |-> v.ty.fs[i].n \o N_colonsp \o Display(v.vals[i])], N_commasp, N_lbrace, N_rbrace)
    [] v.k = "maybe" -> IF v.some THEN N_Just \o N_lpar \o Display(v.v) \o N_rpar ELSE N_Nothing0
    [] v.k = "fun" -> N_funhash
    [] OTHER -> <<63>>

(* ---------------- val.Equals ----------------
   "T" / "F" / "U" (not determined by the specification: a number pair whose
   distance from the tolerance the number domain cannot decide) *)
And3(a, b) == IF a = "F" \/ b = "F" THEN "F" ELSE IF a = "U" \/ b = "U" THEN "U" ELSE "T"
AndAll3(s) == IF \E i \in 1..Len(s) : s[i] = "F" THEN "F" ELSE IF \E i \in 1..Len(s) : s[i] = "U" THEN "U" ELSE "T"
Not3(a) == IF a = "T" THEN "F" ELSE IF a = "F" THEN "T" ELSE "U"
RECURSIVE ValEq(_, _)
ValEq(x, y) ==
  IF ~TypeEq(TypeOfVal(x), TypeOfVal(y)) THEN "F"
  ELSE CASE x.k = "num" -> NumEQ(x.v, y.v)
    [] x.k \in {"bool", "str"} -> B3(x.v = y.v)
    [] x.k = "time" -> B3(x.v = y.v /\ (IF "ns" \in DOMAIN x THEN x.ns ELSE 0) = (IF "ns" \in DOMAIN y THEN y.ns ELSE 0))
    [] x.k = "list" -> IF Len(x.els) # Len(y.els) THEN "F"
                       ELSE AndAll3([i \in 1..Len(x.els) |-> ValEq(x.els[i], y.els[i])])
    [] x.k = "map" -> IF Len(x.ents) # Len(y.ents) THEN "F"
                      ELSE AndAll3([i \in 1..Len(x.ents) |->
                             LET j == EntIdx(y.ents, x.ents[i].kk, x.ents[i].kt) IN
                             IF j = 0 THEN "F" ELSE ValEq(x.ents[i].val, y.ents[j].val)])
    [] x.k = "obj" -> IF Len(x.vals) # Len(y.vals) THEN "F"
                      ELSE AndAll3([i \in 1..Len(x.vals) |->
                             LET j == FieldIdx(y.ty.fs, x.ty.fs[i].n) IN
                             IF j = 0 THEN "F" ELSE ValEq(x.vals[i], y.vals[j])])
    [] x.k = "maybe" -> IF x.some # y.some THEN "F" ELSE IF ~x.some THEN "T" ELSE ValEq(x.v, y.v)
    [] x.k = "fun" -> B3(x = y)
    [] OTHER -> "F"

(* ---------------- set functions (fun/list.go): identity = canonical rendering ---------------- *)
\* first occurrences, in order
DedupByText(els) ==
  LET keep == SelectSeq([i \in 1..Len(els) |-> i],
                        LAMBDA i : \A j \in 1..(i - 1) : Render(els[j]) # Render(els[i]))
  IN [i \in 1..Len(keep) |-> els[keep[i]]]
TextIn(v, els) == \E j \in 1..Len(els) : Render(els[j]) = Render(v)
FirstByText(v, els) == els[CHOOSE j \in 1..Len(els) : Render(els[j]) = Render(v) /\ \A i \in 1..(j - 1) : Render(els[i]) # Render(v)]
SetUnion(xs, ys) == LET dx == DedupByText(xs) dy == DedupByText(ys) IN dx \o SelectSeq(dy, LAMBDA v : ~TextIn(v, dx))
\* the code returns the RIGHT operand's representative of a common element
SetIntersect(xs, ys) == LET dx == DedupByText(xs) dy == DedupByText(ys) c == SelectSeq(dx, LAMBDA v : TextIn(v, dy))
                        IN [i \in 1..Len(c) |-> FirstByText(c[i], dy)]
SetDiff(xs, ys) == LET dx == DedupByText(xs) IN SelectSeq(dx, LAMBDA v : ~TextIn(v, ys))
=============================================================================
