// Command harness binds the TLA+ specification of yae to the Go code: it replays
// TLC-generated cases (and its own seeded random cases) through the real
// lexer / parser / checker / back ends and records what it observed as NDJSON.
// It never judges: verdicts are TLC's (Trace_*.tla).
//
//	harness run <family> [-in cases.ndjson] [-explore N -seed S] -out obs.ndjson [-j N] [-budget ms]
//	harness worker <family>          (child process: one case per line on stdin -> one obs per line)
//
// Every case runs in an isolated child process, because a wrong unchecked cast in
// yae can kill the process (SIGSEGV) or make it spin; the parent turns worker
// death / timeout into an observation attributed to the input.
package main

import (
	"bufio"
	"encoding/json"
	"flag"
	"fmt"
	"io"
	"math/rand"
	"os"
	"os/exec"
	"runtime"
	"strings"
	"sync"
	"time"
)

type J = map[string]interface{}
type A = []interface{}

type Family struct {
	// Gen produces n cases from a seeded generator (explore mode); may be nil
	Gen func(rng *rand.Rand, n int, mode string) []J
	// Run executes one case against yae and returns the observation (the "obs" field)
	Run func(c J) J
	// Fresh: every case runs in its own worker process, and what that process wrote to
	// stderr (race detector reports) and its exit code are attached to the observation
	Fresh bool
}

var families = map[string]*Family{}

func main() {
	if len(os.Args) < 3 {
		fmt.Fprintln(os.Stderr, "usage: harness run|worker <family> ...")
		os.Exit(2)
	}
	fam, ok := families[os.Args[2]]
	if !ok {
		fmt.Fprintf(os.Stderr, "unknown family %s\n", os.Args[2])
		os.Exit(2)
	}
	switch os.Args[1] {
	case "worker":
		worker(fam)
	case "run":
		run(os.Args[2], fam, os.Args[3:])
	default:
		os.Exit(2)
	}
}

func worker(fam *Family) {
	in := bufio.NewReaderSize(os.Stdin, 1<<20)
	out := bufio.NewWriterSize(os.Stdout, 1<<20)
	for {
		line, err := in.ReadBytes('\n')
		if len(line) > 0 {
			var c J
			if e := json.Unmarshal(line, &c); e != nil {
				fmt.Fprintf(os.Stderr, "bad case: %v\n", e)
				os.Exit(3)
			}
			obs := runGuarded(fam, c)
			c["obs"] = obs
			b, e := json.Marshal(c)
			if e != nil {
				fmt.Fprintf(os.Stderr, "marshal: %v\n", e)
				os.Exit(3)
			}
			out.Write(b)
			out.WriteByte('\n')
			out.Flush()
		}
		if err != nil {
			return
		}
	}
}

// a panic escaping a family's Run is a harness defect, reported as such (exit 2 upstream)
func runGuarded(fam *Family, c J) (obs J) {
	defer func() {
		if r := recover(); r != nil {
			buf := make([]byte, 4096)
			n := runtime.Stack(buf, false)
			obs = J{"harness_panic": fmt.Sprint(r), "stack": string(buf[:n])}
		}
	}()
	return fam.Run(c)
}

type child struct {
	cmd    *exec.Cmd
	in     io.WriteCloser
	out    *bufio.Reader
	stderr *tailBuf
}

type tailBuf struct {
	mu sync.Mutex
	b  []byte
}

func (t *tailBuf) Write(p []byte) (int, error) {
	t.mu.Lock()
	defer t.mu.Unlock()
	t.b = append(t.b, p...)
	if len(t.b) > 1<<18 {
		t.b = t.b[len(t.b)-1<<18:]
	}
	return len(p), nil
}
func (t *tailBuf) String() string { t.mu.Lock(); defer t.mu.Unlock(); return string(t.b) }

func spawn(family string) *child {
	cmd := exec.Command(os.Args[0], "worker", family)
	in, _ := cmd.StdinPipe()
	out, _ := cmd.StdoutPipe()
	tb := &tailBuf{}
	cmd.Stderr = tb
	if err := cmd.Start(); err != nil {
		fmt.Fprintf(os.Stderr, "spawn: %v\n", err)
		os.Exit(2)
	}
	return &child{cmd, in, bufio.NewReaderSize(out, 1<<20), tb}
}

func (c *child) kill() {
	c.in.Close()
	_ = c.cmd.Process.Kill()
	_ = c.cmd.Wait()
}

func run(family string, fam *Family, args []string) {
	fs := flag.NewFlagSet("run", flag.ExitOnError)
	inPath := fs.String("in", "", "cases NDJSON")
	outPath := fs.String("out", "", "observations NDJSON")
	explore := fs.Int("explore", 0, "number of generated cases")
	seed := fs.Int64("seed", 1, "generator seed")
	mode := fs.String("mode", "", "generator mode")
	jobs := fs.Int("j", runtime.NumCPU(), "parallel workers")
	budget := fs.Int("budget", 20000, "per-case time budget (ms)")
	idBase := fs.Int("idbase", 0, "first id for generated cases")
	_ = fs.Parse(args)

	var cases [][]byte
	if *inPath != "" {
		f, err := os.Open(*inPath)
		if err != nil {
			fmt.Fprintln(os.Stderr, err)
			os.Exit(2)
		}
		rd := bufio.NewReaderSize(f, 1<<20)
		for {
			line, err := rd.ReadBytes('\n')
			if len(strings.TrimSpace(string(line))) > 0 {
				cases = append(cases, line)
			}
			if err != nil {
				break
			}
		}
		f.Close()
	}
	if *explore > 0 {
		if fam.Gen == nil {
			fmt.Fprintln(os.Stderr, "family has no generator")
			os.Exit(2)
		}
		rng := rand.New(rand.NewSource(*seed))
		for i, c := range fam.Gen(rng, *explore, *mode) {
			c["id"] = *idBase + i + 1
			b, err := json.Marshal(c)
			if err != nil {
				fmt.Fprintln(os.Stderr, "gen marshal:", err)
				os.Exit(2)
			}
			cases = append(cases, append(b, '\n'))
		}
	}

	results := make([][]byte, len(cases))
	var next int
	var mu sync.Mutex
	var wg sync.WaitGroup
	crashes := 0
	for w := 0; w < *jobs; w++ {
		wg.Add(1)
		go func() {
			defer wg.Done()
			var ch *child
			for {
				mu.Lock()
				i := next
				next++
				mu.Unlock()
				if i >= len(cases) {
					break
				}
				if ch == nil {
					ch = spawn(family)
				}
				line := cases[i]
				if line[len(line)-1] != '\n' {
					line = append(line, '\n')
				}
				type rd struct {
					b   []byte
					err error
				}
				done := make(chan rd, 1)
				_, werr := ch.in.Write(line)
				go func(c *child) {
					b, err := c.out.ReadBytes('\n')
					done <- rd{b, err}
				}(ch)
				var res []byte
				fail := ""
				if werr != nil {
					fail = "crash"
				}
				select {
				case r := <-done:
					if r.err != nil || len(r.b) == 0 {
						fail = "crash"
					} else {
						res = r.b
					}
				case <-time.After(time.Duration(*budget) * time.Millisecond):
					fail = "timeout"
				}
				if fail != "" {
					ch.kill()
					var c J
					_ = json.Unmarshal(line, &c)
					c["obs"] = J{"died": fail, "stderr": tailStr(ch.stderr.String(), 1500)}
					b, _ := json.Marshal(c)
					res = append(b, '\n')
					ch = nil
					mu.Lock()
					crashes++
					mu.Unlock()
				}
				if fam.Fresh && fail == "" {
					ch.in.Close()
					werr := ch.cmd.Wait()
					code := 0
					if ee, ok := werr.(*exec.ExitError); ok {
						code = ee.ExitCode()
					} else if werr != nil {
						code = -1
					}
					var c J
					if json.Unmarshal(res, &c) == nil {
						if o, ok := c["obs"].(map[string]interface{}); ok {
							o["proc"] = J{"exit": code, "races": parseRaces(ch.stderr.String())}
							if b, err := json.Marshal(c); err == nil {
								res = append(b, '\n')
							}
						}
					}
					ch = nil
				}
				results[i] = res
			}
			if ch != nil {
				ch.in.Close()
				_ = ch.cmd.Wait()
			}
		}()
	}
	wg.Wait()
	out := os.Stdout
	if *outPath != "" {
		f, err := os.Create(*outPath)
		if err != nil {
			fmt.Fprintln(os.Stderr, err)
			os.Exit(2)
		}
		defer f.Close()
		out = f
	}
	w := bufio.NewWriterSize(out, 1<<20)
	for _, r := range results {
		w.Write(r)
	}
	w.Flush()
	fmt.Fprintf(os.Stderr, "harness: family=%s cases=%d died=%d\n", family, len(cases), crashes)
}

// parseRaces splits the race detector's output into reports; for each report the first frame of
// either access stack that is not Go's own (runtime, sort, reflect, sync, ...) tells whose race it is
func parseRaces(stderr string) A {
	out := A{}
	blocks := strings.Split(stderr, "WARNING: DATA RACE")
	for _, b := range blocks[1:] {
		if i := strings.Index(b, "=================="); i >= 0 {
			b = b[:i]
		}
		owners := A{}
		fns := A{}
		inStack := false
		found := false
		for _, line := range strings.Split(b, "\n") {
			t := strings.TrimSpace(line)
			switch {
			case strings.HasPrefix(t, "Read at") || strings.HasPrefix(t, "Write at") || strings.HasPrefix(t, "Previous ") ||
				strings.HasPrefix(t, "Atomic "):
				inStack, found = true, false
			case strings.HasPrefix(t, "Goroutine "):
				inStack = false
			case inStack && !found && strings.HasSuffix(t, ")") && strings.Contains(t, "(") && !strings.HasPrefix(t, "/"):
				fn := t[:strings.LastIndex(t, "(")]
				if strings.Contains(fn, "goghcrow/yae") {
					owners = append(owners, "yae")
					fns = append(fns, fn)
					found = true
				} else if strings.HasPrefix(fn, "main.") {
					owners = append(owners, "harness")
					fns = append(fns, fn)
					found = true
				}
			}
		}
		out = append(out, J{"owners": owners, "fns": fns, "text": clipHead(strings.TrimSpace(b), 1800)})
	}
	return out
}

func clipHead(s string, n int) string {
	if len(s) > n {
		return s[:n]
	}
	return s
}

func tailStr(s string, n int) string {
	if len(s) > n {
		return s[len(s)-n:]
	}
	return s
}
