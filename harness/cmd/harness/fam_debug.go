package main

// family "debug" (C19): a program is evaluated in debug (power-assert) mode
//   (a) through closure.DebugCompile with the harness's own debug.Record, whose
//       entries are read through the verif hook BEFORE rendering (rendering sorts
//       the record in place), then rendered;
//   (b) through the public yae.Debug with the environment as host data.

import (
	"fmt"

	"github.com/goghcrow/yae"
	"github.com/goghcrow/yae/closure"
	"github.com/goghcrow/yae/debug"
	"github.com/goghcrow/yae/val"
)

func init() {
	families["debug"] = &Family{Run: runDebug}
}

func runDebug(c J) J {
	resolveEnv(c)
	defer func() {
		if _, ok := c["envid"]; ok {
			delete(c, "env")
			delete(c, "pre")
			delete(c, "post")
		}
	}()
	e := obj(c["e"])
	pre := arr(c["pre"])
	curPost = arr(c["post"])
	tenv, venv := envFromJ(arr(c["env"]))
	src := renderSrc(e, toInt(nzInt(c["style"])))
	obs := J{"src": cps(src)}

	// (a) DebugCompile with our own record
	ex := newEngine(pre, closure.DebugCompile)
	var callable yae.Callable
	var cerr error
	var pan interface{}
	func() {
		defer func() { pan = recover() }()
		callable, cerr = ex.Compile(src, tenv())
	}()
	if pan != nil || cerr != nil {
		obs["dbg"] = J{"class": "reject", "entries": A{}, "report": A{}, "v": J{"k": "nil"}, "log": A{}}
	} else {
		rcd := debug.NewRecord()
		env := venv()
		env.Dgb = rcd
		callLog = nil
		var o outcome
		_ = captured(func() { o = invoke(func() (*val.Val, error) { return callable(env) }) })
		entries := A{}
		for _, en := range rcd.Entries() {
			entries = append(entries, J{"v": valJ(en.V), "col": en.Col})
		}
		d := outcomeJ(o, "")
		d["entries"] = entries
		var report string
		cl, msg := guard(func() { report = rcd.Render(src) })
		if cl != "ok" {
			d["report"] = A{}
			d["reportpanic"] = msg
		} else {
			d["report"] = cps(report)
		}
		if _, ok := d["v"]; !ok {
			d["v"] = J{"k": "nil"}
		}
		if _, ok := d["kind"]; !ok {
			d["kind"] = ""
		}
		obs["dbg"] = d
	}

	// (b) the public entry point, environment as a Go struct (built-ins only)
	pub := J{"class": "unrealisable", "report": A{}, "v": J{"k": "nil"}, "kind": ""}
	if len(pre) == 0 || true {
		func() {
			defer func() {
				if r := recover(); r != nil {
					if _, ok := r.(unrealisable); ok {
						return
					}
					pub["class"] = "panic"
					pub["msg"] = clip(fmt.Sprint(r), 120)
				}
			}()
			host := hostOf("struct", arr(c["env"]), "D")
			v, report, err := yae.Debug(src, host)
			pub["report"] = cps(report)
			if err != nil {
				pub["class"] = "error"
				pub["kind"] = classify(err.Error())
			} else {
				pub["class"] = "value"
				pub["v"] = valJ(v)
			}
		}()
	}
	obs["pub"] = pub

	// (c) the public entry point twice with the same source and two map environments that differ in the type of a
	// name the program does not use: neither call may be influenced by the other
	pub2 := J{"class": "unrealisable"}
	func() {
		defer func() {
			if r := recover(); r != nil {
				if _, ok := r.(unrealisable); ok {
					return
				}
				pub2["class"] = "panic"
				pub2["msg"] = clip(fmt.Sprint(r), 120)
			}
		}()
		used := map[string]bool{}
		collectIds(e, used)
		binds := A{}
		for _, b := range arr(c["env"]) {
			if used[str(obj(b)["n"])] {
				binds = append(binds, b)
			}
		}
		var ha, hb map[string]interface{}
		func() {
			// what the harness cannot build as map entries (optionals anywhere inside, lists of records laid out in
			// different field orders) is not a finding about yae
			defer func() {
				if r := recover(); r != nil {
					panic(unrealisable{fmt.Sprint(r)})
				}
			}()
			for _, b := range binds {
				if deepMaybe(obj(obj(b)["v"])) {
					panic(unrealisable{"optional inside a map entry"})
				}
			}
			ha = hostOf("map", binds, "P").(map[string]interface{})
			hb = hostOf("map", binds, "P").(map[string]interface{})
		}()
		ha["zz9"] = 1
		hb["zz9"] = "one"
		one := func(h interface{}) J {
			v, report, err := yae.Debug(src, h)
			r := J{"report": cps(report), "v": J{"k": "nil"}, "kind": ""}
			if err != nil {
				r["class"] = "error"
				r["kind"] = classify(err.Error())
				r["msg"] = clip(err.Error(), 120)
			} else {
				r["class"] = "value"
				r["v"] = valJ(v)
			}
			return r
		}
		ra := one(ha)
		rb := one(hb)
		pub2["class"] = "ran"
		pub2["a"] = ra
		pub2["b"] = rb
	}()
	obs["pub2"] = pub2
	return obs
}

func deepMaybe(j J) bool {
	if j["k"] == "maybe" {
		return true
	}
	for _, v := range j {
		switch x := v.(type) {
		case map[string]interface{}:
			if deepMaybe(x) {
				return true
			}
		case []interface{}:
			for _, y := range x {
				if m, ok := y.(map[string]interface{}); ok && deepMaybe(m) {
					return true
				}
			}
		}
	}
	return false
}

func collectIds(j J, into map[string]bool) {
	if j["k"] == "id" {
		into[str(j["n"])] = true
	}
	for _, v := range j {
		switch x := v.(type) {
		case map[string]interface{}:
			collectIds(x, into)
		case []interface{}:
			for _, y := range x {
				if m, ok := y.(map[string]interface{}); ok {
					collectIds(m, into)
				}
			}
		}
	}
}

func nzInt(x interface{}) interface{} {
	if x == nil {
		return 0
	}
	return x
}
