---------------------------- MODULE YaeApi ----------------------------
(***************************************************************************)
(* The public API (facade.go) over long-lived objects: engines, type       *)
(* environments, value environments, compiled callables.                   *)
(*                                                                         *)
(* A history is a sequence of steps over a fixed pool of objects:          *)
(*   [op |-> "compile", eng, src, tenv]        -> a callable (numbered in  *)
(*                                                order of compilation)    *)
(*   [op |-> "invoke",  call, venv]                                        *)
(*   [op |-> "eval",    src, venv]             yae.Eval(src, host)         *)
(*   [op |-> "debug",   src, venv]             yae.Debug(src, host)        *)
(* An environment object is [kind, binds]: kind "raw" is ONE Go object     *)
(* (a types.Env / val.Env pointer) passed again and again; "struct" / "map" are    *)
(* host data converted by yae on every call.                               *)
(*                                                                         *)
(* The meaning of a step depends only on the CONTENTS of the objects it    *)
(* names (C13) -- so the specification needs no per-object state at all:   *)
(* the outcome of step i is a function of the history's text.              *)
(***************************************************************************)
EXTENDS Yae

TEnvOfBinds(b) == [i \in 1..Len(b) |-> [n |-> b[i].n, t |-> TypeOfVal(InVal(b[i].v))]]
VEnvOfBinds(b) == InEnv(b)
\* facade.envCheck: every name known at compile time is present with an equal type (extra names allowed)
EnvOK(tenv, venv) ==
  \A i \in 1..Len(tenv) : LET j == VEnvIdx(venv, tenv[i].n) IN j # 0 /\ TypeEq(tenv[i].t, TypeOfVal(venv[j].v))

Out(class, v, log) == [class |-> class, v |-> v, log |-> log]
\* compile: acceptance depends on source, operators, functions and the type environment only
CompileStep(ops, pre, src, tbinds) ==
  LET tenv == TEnvOfBinds(tbinds)
      \* type checking needs types only; evaluate the front end and the checker
      lx == Lex(ops, src) IN
  IF ~lx.ok THEN [acc |-> "no"]
  ELSE LET pr == Parse(ops, lx.toks) IN
       IF ~pr.ok THEN (IF pr.why = "ood" THEN [acc |-> "ood"] ELSE [acc |-> "no"])
       ELSE LET co == ToCore(Desugar(pr.node)) IN
            IF ~co.ok THEN [acc |-> "ood"]
            ELSE LET c == Check(co.e, tenv, FunTable(pre)) IN
                 IF c.ok THEN [acc |-> "yes", e |-> c.e, ty |-> c.ty, tenv |-> tenv] ELSE [acc |-> "no"]
\* invoke: environment check first -- a rejected invocation evaluates nothing
InvokeStep(comp, pre, vbinds) ==
  LET venv == VEnvOfBinds(vbinds) IN
  IF ~EnvOK(comp.tenv, venv) THEN Out("error", VNil, <<>>)
  ELSE LET r == Eval(comp.e, venv, FunTable(pre), <<>>) IN
       CASE r.st = "ok" -> Out("value", r.v, r.log)
         [] r.st = "fail" -> Out("error", VNil, r.log)
         [] r.st = "ood" -> Out("ood", VNil, r.log)
         [] OTHER -> Out("stuck", VNil, r.log)
\* the callables of a history, in order of compilation: indices of the compile steps
CompileSteps(h) == SelectSeq([i \in 1..Len(h) |-> i], LAMBDA i : h[i].op = "compile")
\* expected outcomes of all steps of history h over the object pools (each compile step analysed once)
Outcomes(h, ops, pre, tenvs, venvs) ==
  LET comps == [i \in 1..Len(h) |-> IF h[i].op = "compile" THEN CompileStep(ops, pre, h[i].src, tenvs[h[i].tenv].binds) ELSE [acc |-> "none"]]
      cs == CompileSteps(h) IN
  [i \in 1..Len(h) |->
     LET s == h[i] IN
     CASE s.op = "compile" ->
            Out(IF comps[i].acc = "yes" THEN "compiled" ELSE IF comps[i].acc = "no" THEN "error" ELSE "ood", VNil, <<>>)
       [] s.op = "invoke" ->
            LET c == comps[cs[s.call]] IN
            IF c.acc = "ood" THEN Out("ood", VNil, <<>>)
            ELSE IF c.acc = "no" THEN Out("nocallable", VNil, <<>>)
            ELSE InvokeStep(c, pre, venvs[s.venv].binds)
       [] s.op \in {"eval", "debug"} ->
            \* compile and run against the same host value: the environment check cannot fail
            \* (yae.Eval / yae.Debug use a fresh engine: built-ins only)
            LET c == CompileStep(ops, <<>>, s.src, venvs[s.venv].binds) IN
            \* debug mode is for single-line sources: a line break anywhere in the text is reported as an error
            IF s.op = "debug" /\ \E k \in 1..Len(s.src) : s.src[k] = 10 THEN Out("error", VNil, <<>>)
            ELSE IF c.acc = "ood" THEN Out("ood", VNil, <<>>)
            ELSE IF c.acc = "no" THEN Out("error", VNil, <<>>)
            ELSE InvokeStep(c, <<>>, venvs[s.venv].binds)
       [] s.op = "hosteval" -> Out("host", VNil, <<>>)        \* judged by Trace_Api!HostWhy
       [] OTHER -> Out("stuck", VNil, <<>>)]
StepOutcome(h, i, ops, pre, tenvs, venvs) == Outcomes(h, ops, pre, tenvs, venvs)[i]
=============================================================================
