---------------------------- MODULE Trace_Sql ----------------------------
(***************************************************************************)
(* Mode C for C20: the WHERE text produced by ext.CompileToSql for each    *)
(* criteria tree is tokenised and read by the specification (standard SQL  *)
(* precedence) and compared with the flattened criteria tree; every string *)
(* operand must account for exactly one literal token; numbers, booleans   *)
(* and times must appear in their exact form.                              *)
(***************************************************************************)
EXTENDS Gen_Sql

Obs == ObsLoaded
N == Len(Obs)
RECURSIVE CondSeq(_)
CondSeq(f) == IF f.k = "c" THEN <<f>> ELSE Concat([i \in 1..Len(f.items) |-> CondSeq(f.items[i])])
RECURSIVE Shape(_)
Shape(f) == IF f.k = "c" THEN [k |-> "c"] ELSE [k |-> f.k, items |-> [i \in 1..Len(f.items) |-> Shape(f.items[i])]]
\* a string token matches its operand when it decodes to it; for characters MySQL has no escape for (strconv.Quote writes
\* \\xNN) the decoding of the Go-quoted form is accepted as well -- fidelity there is a diagnostic, not what C20 states
StrTokOk(got, want) == got.v = want.v \/ got.v = DqDecode(Sub(Quote(want.v), 2, Len(Quote(want.v)) - 1))
ToksEq(g, w) == Len(g) = Len(w) /\ \A i \in 1..Len(g) : g[i].t = w[i].t /\ (IF g[i].t = "str" THEN StrTokOk(g[i], w[i])
                                                                               ELSE g[i].v = w[i].v \/ (w[i].t = "num" /\ w[i].v = <<>>))   \* (text not known to the specification)
RECURSIVE TreeEq(_, _)
TreeEq(g, w) == IF g.k # w.k THEN FALSE
                ELSE IF g.k = "c" THEN ToksEq(g.toks, w.toks)
                ELSE Len(g.items) = Len(w.items) /\ \A i \in 1..Len(g.items) : TreeEq(g.items[i], w.items[i])
Judge(rec) ==
  LET o == rec.obs IN
  IF "died" \in DOMAIN o THEN {"total"}
  ELSE IF o.class # "ok" THEN {"failed"}
  ELSE LET lx == SqlLex(o.text)
           want == Flatten(CritTree(rec.c, rec.venv)) IN
       IF ~lx.ok THEN {"unlexable"}
       ELSE LET r == ReadSql(Plain(lx.toks)) IN
            IF ~r.ok THEN {"unreadable"}
            ELSE LET got == Flatten(r.n) IN
                 \* the same connectives in the same nesting
                 (IF Shape(got) # Shape(want) THEN {"structure"} ELSE {})
                 \* the same conditions, token by token (operands: values substituted for bound names, columns otherwise)
                 \cup (IF Shape(got) = Shape(want) /\ ~TreeEq(got, want) THEN {"conditions"} ELSE {})
                 \* one literal per string operand: as many string tokens as string operands
                 \cup (IF Len(SelectSeq(lx.toks, LAMBDA t : t.t = "str")) #
                          Len(SelectSeq(Concat([i \in 1..Len(CondSeq(want)) |-> CondSeq(want)[i].toks]), LAMBDA t : t.t = "str"))
                       THEN {"literals"} ELSE {})
InitT == st \in {[c |-> c, l |-> ChunkLo(c, N)] : c \in 1..NChunks}
NextT == /\ st.l <= ChunkHi(st.c, N)
         /\ EmitVerdict(Obs[st.l].id, Judge(Obs[st.l]), "")
         /\ st' = [st EXCEPT !.l = @ + 1]
=============================================================================
