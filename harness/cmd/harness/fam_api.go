package main

// family "api" (C07, C12, C13): histories of Compile / invoke / Eval / Debug over a
// pool of environment objects.  A "raw" environment object is ONE *types.Env /
// *val.Env reused by every step that names it; "struct" and "map" objects are
// host data (built with reflect) handed to yae, which converts them on each call.
// Every history runs on each back end; every invoke / eval / debug is repeated.

import (
	"encoding/json"
	"fmt"
	"os"
	"reflect"
	"time"

	"github.com/goghcrow/yae"
	"github.com/goghcrow/yae/closure"
	"github.com/goghcrow/yae/compiler"
	"github.com/goghcrow/yae/interp"
	"github.com/goghcrow/yae/types"
	"github.com/goghcrow/yae/val"
	"github.com/goghcrow/yae/vm"
)

func init() {
	families["api"] = &Family{Run: runApi}
}

var apiPools A

func loadPools() {
	if apiPools != nil {
		return
	}
	f, err := os.Open(os.Getenv("VERIF_POOLS"))
	if err != nil {
		panic("VERIF_POOLS: " + err.Error())
	}
	defer f.Close()
	dec := json.NewDecoder(f)
	for {
		var j J
		if err := dec.Decode(&j); err != nil {
			break
		}
		if _, ok := j["pools"]; ok {
			apiPools = arr(j["envs"])
		}
	}
	if apiPools == nil {
		panic("no pools record in VERIF_POOLS")
	}
}

type unrealisable struct{ why string }

// goTypeOf: the Go type that converts to the yae type t
func goTypeOf(t J, prefix string) reflect.Type {
	switch t["k"] {
	case "num":
		return reflect.TypeOf(float64(0))
	case "str":
		return reflect.TypeOf("")
	case "bool":
		return reflect.TypeOf(true)
	case "time":
		return reflect.TypeOf(time.Time{})
	case "list":
		return reflect.SliceOf(goTypeOf(obj(t["el"]), prefix))
	case "map":
		return reflect.MapOf(goTypeOf(obj(t["key"]), prefix), goTypeOf(obj(t["val"]), prefix))
	case "maybe":
		return reflect.PtrTo(goTypeOf(obj(t["el"]), prefix))
	case "obj":
		fs := []reflect.StructField{}
		for i, f := range arr(t["fs"]) {
			ft := obj(obj(f)["t"])
			tag := str(obj(f)["n"])
			if ft["k"] == "maybe" {
				tag += ",maybe"
			}
			fs = append(fs, reflect.StructField{Name: fmt.Sprintf("%s%d", prefix, i), Type: goTypeOf(ft, prefix),
				Tag: reflect.StructTag(`yae:"` + tag + `"`)})
		}
		return reflect.StructOf(fs)
	}
	panic(unrealisable{"type " + fmt.Sprint(t["k"])})
}

func typeOfValJ(v J) J {
	switch v["k"] {
	case "num", "str", "bool", "time":
		return J{"k": v["k"]}
	}
	return obj(v["ty"])
}

// goValOf: host value converting to the yae value v (input shape)
func goValOf(v J, prefix string) reflect.Value {
	switch v["k"] {
	case "num":
		return reflect.ValueOf(numFromJ(obj(v["v"])))
	case "str":
		return reflect.ValueOf(str(v["v"]))
	case "bool":
		return reflect.ValueOf(boolv(v["v"]))
	case "time":
		return reflect.ValueOf(time.Unix(int64(toInt(v["v"])), 0))
	case "list":
		st := goTypeOf(obj(v["ty"]), prefix)
		els := arr(v["els"])
		s := reflect.MakeSlice(st, len(els), len(els))
		for i, e := range els {
			s.Index(i).Set(goValOf(obj(e), prefix))
		}
		return s
	case "map":
		mt := goTypeOf(obj(v["ty"]), prefix)
		m := reflect.MakeMap(mt)
		for _, e := range arr(v["ents"]) {
			m.SetMapIndex(goValOf(obj(obj(e)["key"]), prefix), goValOf(obj(obj(e)["val"]), prefix))
		}
		return m
	case "obj":
		st := goTypeOf(obj(v["ty"]), prefix)
		s := reflect.New(st).Elem()
		for i, e := range arr(v["vals"]) {
			s.Field(i).Set(goValOf(obj(e), prefix))
		}
		return s
	case "maybe":
		pt := goTypeOf(obj(v["ty"]), prefix)
		if !boolv(v["some"]) {
			return reflect.Zero(pt)
		}
		p := reflect.New(pt.Elem())
		p.Elem().Set(goValOf(obj(v["v"]), prefix))
		return p
	}
	panic(unrealisable{"value " + fmt.Sprint(v["k"])})
}

// hostOf: the environment as a Go struct (tags carry the names) or map[string]interface{}
func hostOf(kind string, binds A, prefix string) interface{} {
	if kind == "map" {
		m := map[string]interface{}{}
		for _, b := range binds {
			v := obj(obj(b)["v"])
			if v["k"] == "maybe" {
				panic(unrealisable{"optional as map entry"})
			}
			m[str(obj(b)["n"])] = goValOf(v, prefix).Interface()
		}
		return m
	}
	fs := []reflect.StructField{}
	for i, b := range binds {
		v := obj(obj(b)["v"])
		tag := str(obj(b)["n"])
		if v["k"] == "maybe" {
			tag += ",maybe"
		}
		fs = append(fs, reflect.StructField{Name: fmt.Sprintf("%sE%d", prefix, i), Type: goTypeOf(typeOfValJ(v), prefix),
			Tag: reflect.StructTag(`yae:"` + tag + `"`)})
	}
	s := reflect.New(reflect.StructOf(fs)).Elem()
	for i, b := range binds {
		s.Field(i).Set(goValOf(obj(obj(b)["v"]), prefix))
	}
	return s.Interface()
}

var apiBackends = []struct {
	name string
	comp compiler.Compiler
}{{"vm", vm.Compile}, {"vmct", vm.CompileCallThreaded}, {"closure", closure.Compile}, {"interp", interp.Interp}}

type apiObjs struct {
	traw map[int]*types.Env
	vraw map[int]*val.Env
}

func (o *apiObjs) tenvArg(idx int) (arg interface{}, un bool) {
	e := obj(apiPools[idx-1])
	defer func() {
		if r := recover(); r != nil {
			if _, ok := r.(unrealisable); ok {
				arg, un = nil, true
				return
			}
			panic(r)
		}
	}()
	if e["kind"] == "raw" {
		if t, ok := o.traw[idx]; ok {
			return t, false
		}
		// a hand-written type environment: structurally identical composite types are one *Type
		t := types.NewEnv()
		tb := &typeBuilder{share: true}
		for i, b := range arr(e["binds"]) {
			ty := tb.build(typeOfValJ(obj(obj(b)["v"])))
			if i%2 == 0 {
				// every other name is bound twice: first to another type, then to its own (the last binding counts)
				decoy := types.Bool
				if ty.Kind == types.KBool {
					decoy = types.Num
				}
				t.Put(str(obj(b)["n"]), decoy)
			}
			t.Put(str(obj(b)["n"]), ty)
		}
		o.traw[idx] = t
		return t, false
	}
	return hostOf(e["kind"].(string), arr(e["binds"]), "F"), false
}

func (o *apiObjs) venvArg(idx int) (arg interface{}, un bool) {
	e := obj(apiPools[idx-1])
	defer func() {
		if r := recover(); r != nil {
			if _, ok := r.(unrealisable); ok {
				arg, un = nil, true
				return
			}
			panic(r)
		}
	}()
	if e["kind"] == "raw" {
		if v, ok := o.vraw[idx]; ok {
			return v, false
		}
		v := val.NewEnv()
		for i, b := range arr(e["binds"]) {
			if i%2 == 1 {
				v.Put(str(obj(b)["n"]), val.Str("rebound"))
			}
			v.Put(str(obj(b)["n"]), valFromJ(obj(obj(b)["v"])))
		}
		o.vraw[idx] = v
		return v, false
	}
	// a different but equally-shaped Go type than the compile-time one
	return hostOf(e["kind"].(string), arr(e["binds"]), "G"), false
}

func nz(v interface{}) interface{} {
	if v == nil {
		return J{"k": "nil"}
	}
	return v
}

func digest(x interface{}) string {
	if _, ok := x.(*val.Env); ok {
		return ""
	}
	return fmt.Sprintf("%#v", x)
}

func apiOutcome(f func() (*val.Val, error)) J {
	callLog = nil
	var o outcome
	out := captured(func() { o = invoke(f) })
	j := outcomeJ(o, out)
	if o.pan != nil {
		j["class"] = "panic"
	} else if o.err != nil {
		j["class"] = "error"
	}
	return j
}

func runApi(c J) J {
	loadPools()
	h := arr(c["h"])
	pre := arr(c["pre"])
	runs := J{}
	for _, b := range apiBackends {
		objs := &apiObjs{map[int]*types.Env{}, map[int]*val.Env{}}
		engines := map[int]*yae.Expr{}
		var callables []yae.Callable
		unreal := map[int]bool{}
		steps := A{}
		for _, sx := range h {
			s := obj(sx)
			step := J{"class": "none", "v": J{"k": "nil"}, "log": A{}, "stdout": A{}, "reps": A{}, "hostsame": true, "kind": ""}
			switch s["op"] {
			case "hosteval":
				step = runHostStep(s)
			case "compile":
				ei := toInt(s["eng"])
				if engines[ei] == nil {
					curPost = nil
					engines[ei] = newEngine(pre, b.comp)
				}
				arg, un := objs.tenvArg(toInt(s["tenv"]))
				if un {
					step["class"] = "unrealisable"
					callables = append(callables, nil)
					unreal[len(callables)] = true
					break
				}
				var cl yae.Callable
				var err error
				var pan interface{}
				func() {
					defer func() { pan = recover() }()
					cl, err = engines[ei].Compile(str(s["src"]), arg)
				}()
				switch {
				case pan != nil:
					step["class"] = "panic"
					step["msg"] = clip(fmt.Sprint(pan), 120)
					cl = nil
				case err != nil:
					step["class"] = "error"
					step["msg"] = clip(err.Error(), 120)
					cl = nil
				default:
					step["class"] = "compiled"
				}
				callables = append(callables, cl)
			case "invoke":
				k := toInt(s["call"])
				if unreal[k] {
					step["class"] = "unrealisable"
					break
				}
				if k > len(callables) || callables[k-1] == nil {
					step["class"] = "nocallable"
					break
				}
				arg, un := objs.venvArg(toInt(s["venv"]))
				if un {
					step["class"] = "unrealisable"
					break
				}
				before := digest(arg)
				var first J
				reps := A{}
				for r := 0; r < 3; r++ {
					o := apiOutcome(func() (*val.Val, error) { return callables[k-1](arg) })
					reps = append(reps, J{"class": o["class"], "v": nz(o["v"]), "log": o["log"]})
					if r == 0 {
						first = o
					}
				}
				for k2, v2 := range first {
					step[k2] = v2
				}
				if _, ok := step["v"]; !ok {
					step["v"] = J{"k": "nil"}
				}
				step["reps"] = reps
				step["hostsame"] = before == digest(arg)
			case "eval", "debug":
				arg, un := objs.venvArg(toInt(s["venv"]))
				if un || arg == nil {
					step["class"] = "unrealisable"
					break
				}
				if _, raw := arg.(*val.Env); raw {
					step["class"] = "unrealisable"
					break
				}
				before := digest(arg)
				reps := A{}
				var first J
				for r := 0; r < 2; r++ {
					var o J
					if s["op"] == "eval" {
						o = apiOutcome(func() (*val.Val, error) { return yae.Eval(str(s["src"]), arg) })
					} else {
						o = apiOutcome(func() (*val.Val, error) {
							v, report, err := yae.Debug(str(s["src"]), arg)
							_ = report
							return v, err
						})
					}
					reps = append(reps, J{"class": o["class"], "v": nz(o["v"]), "log": o["log"]})
					if r == 0 {
						first = o
					}
				}
				for k2, v2 := range first {
					step[k2] = v2
				}
				if _, ok := step["v"]; !ok {
					step["v"] = J{"k": "nil"}
				}
				step["reps"] = reps
				step["hostsame"] = before == digest(arg)
			}
			if _, ok := step["v"]; !ok || step["v"] == nil {
				step["v"] = J{"k": "nil"}
			}
			if step["kind"] == nil {
				step["kind"] = ""
			}
			steps = append(steps, step)
		}
		runs[b.name] = steps
	}
	return J{"runs": runs}
}

// ---- unusual host values (C12): catalogued by name, shared with Gen_Api!HostNames
type selfRef struct {
	Val  int
	Next *selfRef
}

func deepType(n int) reflect.Type {
	t := reflect.TypeOf(0)
	for i := 0; i < n; i++ {
		t = reflect.StructOf([]reflect.StructField{{Name: "F", Type: reflect.PtrTo(t)}})
	}
	return t
}

func deepValue(t reflect.Type) reflect.Value {
	v := reflect.New(t).Elem()
	if t.Kind() == reflect.Struct {
		inner := t.Field(0).Type.Elem()
		p := reflect.New(inner)
		p.Elem().Set(deepValue(inner))
		v.Field(0).Set(p)
	} else {
		v.SetInt(1)
	}
	return v
}

func hostByName(name string) interface{} {
	type s1 struct{ A int }
	switch name {
	case "H_nil":
		return nil
	case "H_nilptr_struct":
		return (*s1)(nil)
	case "H_ptr_nilptr":
		var p *s1
		return &p
	case "H_ptr_nilmap":
		var m map[string]int
		return &m
	case "H_ptrptr_struct":
		p := &s1{1}
		return &p
	case "H_chan":
		return make(chan int)
	case "H_func":
		return func() {}
	case "H_int":
		return 42
	case "H_deep120":
		return deepValue(deepType(120)).Interface()
	case "H_selfref":
		return selfRef{Val: 1}
	case "H_map_reserved_key":
		return map[string]interface{}{"type": "order", "map": 1, "return": true, "price": 42}
	case "H_struct_reserved_tag":
		return struct {
			T string `yae:"type"`
			L []int  `yae:"list"`
			P int    `yae:"price"`
		}{"order", []int{1}, 42}
	case "H_map_odd_keys":
		return map[string]interface{}{"": 1, "a b": 2, "1x": 3, "é": 4, "true": 5, "if": 6}
	case "H_iface_cycle":
		// an interface holding a pointer to itself: following it never ends
		var x interface{}
		x = &x
		return x
	case "H_ptr_cycle":
		// a struct reachable from itself through its own pointer field
		n := &selfRef{Val: 1}
		n.Next = n
		return n
	case "H_iface_cycle_field":
		var x interface{}
		x = &x
		return struct{ A interface{} }{x}
	case "H_mixed_iface_slice":
		return struct{ Xs []interface{} }{[]interface{}{1, "a"}}
	case "H_map_intkeys":
		return map[int]int{1: 2}
	case "H_map_mixed_iface":
		return map[string]interface{}{"m": map[string]interface{}{"a": 1, "b": "x"}}
	case "H_struct_chan_field":
		return struct{ C chan int }{make(chan int)}
	case "H_nested_nil_iface":
		return map[string]interface{}{"x": nil}
	case "H_empty_struct":
		return struct{}{}
	case "H_ptr_struct":
		return &s1{7}
	}
	panic("unknown host " + name)
}

func classOf(f func() error) (class string) {
	defer func() {
		if r := recover(); r != nil {
			class = "panic"
		}
	}()
	if err := f(); err != nil {
		return "error"
	}
	return "value"
}

func runHostStep(s J) J {
	src := str(s["src"])
	name := s["host"].(string)
	api := J{}
	api["eval"] = classOf(func() error { _, err := yae.Eval(src, hostByName(name)); return err })
	api["debug"] = classOf(func() error { _, _, err := yae.Debug(src, hostByName(name)); return err })
	api["compile_call"] = classOf(func() error {
		c, err := yae.NewExpr().Compile(src, hostByName(name))
		if err != nil {
			return err
		}
		_, err = c(hostByName(name))
		return err
	})
	return J{"class": "host", "api": api, "v": J{"k": "nil"}, "log": A{}, "stdout": A{}, "reps": A{}, "hostsame": true, "kind": ""}
}
