package main

// family "sql" (C20): criteria trees built through ext.Cond / ext.CondGroup are
// compiled with ext.CompileToSql and run with an environment binding some names;
// the WHERE text is recorded as code points (tokenised and read by the specification).

import (
	"fmt"
	"time"

	"github.com/goghcrow/yae/ext"
	"github.com/goghcrow/yae/parser/ast"
	"github.com/goghcrow/yae/parser/pos"
	"github.com/goghcrow/yae/types"
	"github.com/goghcrow/yae/val"
)

func init() {
	families["sql"] = &Family{Run: runSql}
}

var sqlColumns = map[string]*types.Type{"a": types.Num, "b": types.Num, "s": types.Str, "f": types.Bool, "t": types.Time,
	"u": types.Num, "w": types.Str}

func operandExpr(o J) ast.Expr {
	u := pos.Unknown
	switch o["o"] {
	case "num":
		f := numFromJ(obj(o["n"]))
		return &ast.NumExpr{Pos: u, Text: fmt.Sprint(f), Val: f}
	case "str":
		s := str(o["s"])
		return &ast.StrExpr{Pos: u, Text: s, Val: s}
	case "bool":
		if boolv(o["b"]) {
			return ast.True(u)
		}
		return ast.False(u)
	case "time":
		ts := int64(toInt(o["t"]))
		return &ast.TimeExpr{Pos: u, Text: fmt.Sprintf("'@%d'", ts), Val: ts}
	case "name":
		return ast.Var(str(o["n"]), u)
	case "list":
		els := []ast.Expr{}
		for _, e := range arr(o["els"]) {
			els = append(els, operandExpr(obj(e)))
		}
		return ast.List(els, u)
	}
	panic("operandExpr")
}

func criteriaFromJ(c J) ext.Criteria {
	if c["k"] == "cond" {
		ops := []ast.Expr{}
		for _, a := range arr(c["args"]) {
			ops = append(ops, operandExpr(obj(a)))
		}
		return ext.Cond{Field: str(c["field"]), Operator: c["op"].(string), Operands: ops}
	}
	lop := map[string]ext.LogicalOper{"AND": ext.AND, "OR": ext.OR, "NOT": ext.NOT}[c["lop"].(string)]
	cs := []ext.Criteria{}
	for _, x := range arr(c["cs"]) {
		cs = append(cs, criteriaFromJ(obj(x)))
	}
	return ext.CondGroup{LogicalOper: lop, Conds: cs}
}

func runSql(c J) J {
	tenv := types.NewEnv()
	for n, t := range sqlColumns {
		tenv.Put(n, t)
	}
	venv := val.NewEnv()
	for _, b := range arr(c["venv"]) {
		venv.Put(str(obj(b)["n"]), valFromJ(obj(obj(b)["v"])))
	}
	_ = time.Now
	var text string
	var err error
	cl, msg := guard(func() {
		f := ext.CompileToSql(criteriaFromJ(obj(c["c"])), tenv)
		text, err = f(venv)
	})
	if cl != "ok" {
		return J{"class": "panic", "msg": msg, "text": A{}}
	}
	if err != nil {
		return J{"class": "error", "msg": clip(err.Error(), 120), "text": A{}}
	}
	return J{"class": "ok", "text": cps(text)}
}
