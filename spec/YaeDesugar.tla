---------------------------- MODULE YaeDesugar ----------------------------
(***************************************************************************)
(* trans/desugar.go: operator applications, ?:, method-call syntax and     *)
(* parentheses are notation for calls.  Desugar maps a parse tree (with    *)
(* positions) to a core tree, keeping each node's span and giving every    *)
(* generated call the debug column of its operator token.                  *)
(***************************************************************************)
EXTENDS YaeParser

CoreKinds == {"num", "str", "bool", "time", "list", "map", "obj", "id", "call", "sub", "mem"}
RECURSIVE Desugar(_)
Desugar(n) ==
  CASE n.k \in {"num", "str", "bool", "time", "id"} -> n
    [] n.k = "list" -> [n EXCEPT !.els = [i \in 1..Len(n.els) |-> Desugar(n.els[i])]]
    [] n.k = "map" -> [n EXCEPT !.ps = [i \in 1..Len(n.ps) |-> [key |-> Desugar(n.ps[i].key), val |-> Desugar(n.ps[i].val)]]]
    [] n.k = "obj" -> [n EXCEPT !.fs = [i \in 1..Len(n.fs) |-> [n |-> n.fs[i].n, v |-> Desugar(n.fs[i].v)]]]
    [] n.k = "un" -> [k |-> "call", f |-> [k |-> "id", n |-> n.op, pos |-> n.oppos], args |-> <<Desugar(n.e)>>,
                      dc |-> n.oppos.col, pos |-> n.pos]
    [] n.k = "bin" -> [k |-> "call", f |-> [k |-> "id", n |-> n.op, pos |-> n.oppos], args |-> <<Desugar(n.l), Desugar(n.r)>>,
                       dc |-> n.oppos.col, pos |-> n.pos]
    [] n.k = "tern" -> [k |-> "call", f |-> [k |-> "id", n |-> N_if, pos |-> n.oppos],
                        args |-> <<Desugar(n.l), Desugar(n.m), Desugar(n.r)>>, dc |-> n.oppos.col, pos |-> n.pos]
    [] n.k = "call" ->
         IF n.f.k = "mem"
         THEN \* obj.method(args...) -> method(obj, args...): receiver first, arguments in source order
              [k |-> "call", f |-> [k |-> "id", n |-> n.f.n, pos |-> n.f.npos],
               args |-> <<Desugar(n.f.x)>> \o [i \in 1..Len(n.args) |-> Desugar(n.args[i])], dc |-> n.dc, pos |-> n.pos]
         ELSE [k |-> "call", f |-> Desugar(n.f), args |-> [i \in 1..Len(n.args) |-> Desugar(n.args[i])], dc |-> n.dc, pos |-> n.pos]
    [] n.k = "sub" -> [k |-> "sub", x |-> Desugar(n.x), i |-> Desugar(n.i), dc |-> n.dc, pos |-> n.pos]
    [] n.k = "mem" -> [n EXCEPT !.x = Desugar(n.x)]
    [] n.k = "group" -> Desugar(n.e)
    [] OTHER -> n

RECURSIVE IsCore(_)
IsCore(n) ==
  /\ n.k \in CoreKinds
  /\ CASE n.k = "list" -> \A i \in 1..Len(n.els) : IsCore(n.els[i])
       [] n.k = "map" -> \A i \in 1..Len(n.ps) : IsCore(n.ps[i].key) /\ IsCore(n.ps[i].val)
       [] n.k = "obj" -> \A i \in 1..Len(n.fs) : IsCore(n.fs[i].v)
       [] n.k = "call" -> IsCore(n.f) /\ \A i \in 1..Len(n.args) : IsCore(n.args[i])
       [] n.k = "sub" -> IsCore(n.x) /\ IsCore(n.i)
       [] n.k = "mem" -> IsCore(n.x)
       [] OTHER -> TRUE
\* the leaves (identifiers and literals) in source order: desugaring must not reorder operands
RECURSIVE Leaves(_)
Leaves(n) ==
  CASE n.k \in {"num", "str", "bool", "time"} -> <<n.pos.idx>>
    [] n.k = "id" -> <<n.pos.idx>>
    [] n.k = "list" -> Concat([i \in 1..Len(n.els) |-> Leaves(n.els[i])])
    [] n.k = "map" -> Concat([i \in 1..Len(n.ps) |-> Leaves(n.ps[i].key) \o Leaves(n.ps[i].val)])
    [] n.k = "obj" -> Concat([i \in 1..Len(n.fs) |-> Leaves(n.fs[i].v)])
    [] n.k = "call" -> (IF n.f.k = "id" THEN <<>> ELSE Leaves(n.f)) \o Concat([i \in 1..Len(n.args) |-> Leaves(n.args[i])])
    [] n.k = "sub" -> Leaves(n.x) \o Leaves(n.i)
    [] n.k = "mem" -> Leaves(n.x)
    [] n.k = "un" -> Leaves(n.e)
    [] n.k = "bin" -> Leaves(n.l) \o Leaves(n.r)
    [] n.k = "tern" -> Leaves(n.l) \o Leaves(n.m) \o Leaves(n.r)
    [] n.k = "group" -> Leaves(n.e)
    [] OTHER -> <<>>
OperandsInSourceOrder(t) == LET ls == Leaves(Desugar(t)) IN \A i \in 1..(Len(ls) - 1) : ls[i] < ls[i + 1]
=============================================================================
