#!/bin/bash
# usage: seed_confirm.sh <Cxx> <variant>   -- confirms a seeded change in a scratch worktree of /repo HEAD:
#   patch applies, builds, existing suite passes, demo fails with the patch and passes without it
set -u
ID=$1; V=$2; SRC=/tmp/seed-out/$ID/$V
WT=/tmp/seedconfirm/$ID-$V
export GOFLAGS=-mod=mod GOPROXY=off GOSUMDB=off GOTOOLCHAIN=local
rm -rf $WT; git -C /repo worktree prune; git -C /repo worktree add -q --detach $WT HEAD || exit 9
cd $WT
res() { echo "$ID/$V: $1"; cd /; git -C /repo worktree remove --force $WT; exit $2; }
mkdir seeddemo && cp $SRC/demo_test.go seeddemo/
go test -vet=off -count=1 ./seeddemo/ >/tmp/seedconfirm/$ID-$V.clean.log 2>&1 || res "demo FAILS on clean HEAD (already detected defect fixed? or demo depends on old behaviour)" 3
rm -rf seeddemo
git apply $SRC/patch.diff 2>/tmp/seedconfirm/$ID-$V.apply.log || res "patch does not apply to current HEAD" 4
go build ./... >/dev/null 2>&1 || res "does not build" 5
go test -vet=off -count=1 ./... >/tmp/seedconfirm/$ID-$V.suite.log 2>&1 || res "existing suite fails with patch" 6
git diff > /tmp/seedconfirm/$ID-$V.patch
mkdir seeddemo && cp $SRC/demo_test.go seeddemo/
if go test -vet=off -count=1 ./seeddemo/ >/tmp/seedconfirm/$ID-$V.patched.log 2>&1; then res "demo PASSES with patch (no violation shown)" 7; fi
res "CONFIRMED" 0
