---------------------------- MODULE Gen_Types ----------------------------
(***************************************************************************)
(* C17, Mode A + case generation.  Every state is one (x, y) pair of types;*)
(* the invariants are the laws the property states, evaluated on the       *)
(* specification's own TypeEq / Unify; each state is also written out as a *)
(* case for the Go harness to run through types.Equals / types.Unify.      *)
(*   P_MODE = "pairs"    all ordered pairs of depth-<=1 types              *)
(*   P_MODE = "patterns" 2-tuples of patterns against ground 2-tuples      *)
(*   P_MODE = "pp"       2-tuples of patterns against 2-tuples of patterns  *)
(*   P_SIZE = 1 (5 atoms) | 2 (8 atoms)                                    *)
(***************************************************************************)
EXTENDS YaeTypes, YaeIO

Univ == P_MODE
Full == P_SIZE >= 2

Atoms == IF Full THEN {TNum, TStr, TBool, TTime, TVar("a"), TVar("b"), TBot, TTop}
         ELSE {TNum, TStr, TVar("a"), TVar("b"), TBot}
FA == N_a
FB == N_b
D1 == Atoms \cup {TList(e) : e \in Atoms} \cup {TMaybe(e) : e \in Atoms}
        \cup {TMap(a, b) : a \in {t \in Atoms : Keyable(t)}, b \in Atoms}
        \cup {TObj(<<Fld(n, e)>>) : e \in Atoms, n \in {FA, FB}}
        \cup {TObj(<<Fld(fg[1], e), Fld(fg[2], h)>>) : e \in Atoms, h \in Atoms, fg \in {<<FA, FB>>, <<FB, FA>>}}
        \cup {TFun(N_f, <<p>>, r) : p \in Atoms, r \in Atoms}
        \cup {TFun(N_f, <<>>, r) : r \in Atoms}

\* patterns: depth <= 1 over {num, 'a, 'b}; ground set incl. both field orders
PA == {TNum, TVar("a"), TVar("b")}
PD1 == PA \cup {TList(e) : e \in PA} \cup {TMaybe(e) : e \in PA} \cup {TMap(a, b) : a \in {TNum, TVar("a")}, b \in PA}
        \cup {TObj(<<Fld(FA, e)>>) : e \in PA}
        \cup {TObj(<<Fld(fg[1], e), Fld(fg[2], h)>>) : e \in PA, h \in PA, fg \in {<<FA, FB>>, <<FB, FA>>}}
GS == IF Full
      THEN {TNum, TStr, TList(TNum), TList(TStr), TObj(<<Fld(FA, TNum)>>), TMaybe(TNum), TMap(TNum, TStr),
            TObj(<<Fld(FA, TNum), Fld(FB, TStr)>>), TObj(<<Fld(FB, TStr), Fld(FA, TNum)>>),
            TObj(<<Fld(FA, TNum), Fld(FB, TNum)>>), TList(TList(TNum))}
      ELSE {TNum, TStr, TList(TNum), TObj(<<Fld(FA, TNum), Fld(FB, TStr)>>), TObj(<<Fld(FB, TStr), Fld(FA, TNum)>>), TMap(TNum, TStr)}

VARIABLE st
Mk(x, y) == [x |-> x, y |-> y, u |-> Unify(x, y, EmptyM)]

\* pattern against pattern: 2-tuples sharing variables on both sides (occurs check through bindings)
PPA == {TVar("a"), TVar("b"), TVar("c"), TNum, TList(TVar("a")), TList(TVar("b")), TMaybe(TVar("a")),
        TObj(<<Fld(FA, TVar("a"))>>), TMap(TVar("a"), TVar("b"))}
Seeds == IF Univ = "pairs" THEN {[seed |-> x] : x \in D1}
         ELSE IF Univ = "pp" THEN {[seed |-> TTuple(<<x1, x2>>)] : x1 \in PPA, x2 \in PPA}
         ELSE {[seed |-> TTuple(<<x1, x2>>)] : x1 \in PD1, x2 \in PD1}
Init == st \in Seeds
Next == /\ "seed" \in DOMAIN st
        /\ IF Univ = "pairs"
           THEN \E y \in D1 : st' = Mk(st.seed, y)
           ELSE IF Univ = "pp" THEN \E y1 \in PPA, y2 \in PPA : st' = Mk(st.seed, TTuple(<<y1, y2>>))
           ELSE \E y1 \in GS, y2 \in GS : st' = Mk(st.seed, TTuple(<<y1, y2>>))

IsCase == "x" \in DOMAIN st
MList(m) == LET ns == SetToSeq(DOMAIN m) IN [i \in 1..Len(ns) |-> [n |-> ns[i], t |-> m[ns[i]]]]
Emit == IsCase => EmitCase([fam |-> "unify", x |-> st.x, y |-> st.y])

(* ---- the laws (C17), on the specification ---- *)
EqRefl == IsCase => TypeEq(st.x, st.x) /\ TypeEq(st.y, st.y)
EqSym == IsCase => (TypeEq(st.x, st.y) <=> TypeEq(st.y, st.x))
EqStructural == IsCase => (TypeEq(st.x, st.y) <=> CanonType(st.x) = CanonType(st.y))
EqUnifies == IsCase /\ TypeEq(st.x, st.y) => st.u.ok
UnifySound == IsCase /\ st.u.ok /\ ~HasBotTop(st.x) /\ ~HasBotTop(st.y)
                 => TypeEq(ApplySubst(st.x, st.u.m), ApplySubst(st.y, st.u.m))
NoSelfBinding == IsCase /\ st.u.ok => ~CyclicSubst(st.u.m)
\* bindings made are consistent: a variable is bound once (a map), and what it is
\* bound to is what both sides agree on after substitution (covered by UnifySound)
RECURSIVE SubTerms(_)
SubTerms(t) ==
  {t} \cup CASE t.k \in {"list", "maybe"} -> SubTerms(t.el)
             [] t.k = "map" -> SubTerms(t.key) \cup SubTerms(t.val)
             [] t.k = "tuple" -> UNION {SubTerms(t.ts[i]) : i \in 1..Len(t.ts)}
             [] t.k = "obj" -> UNION {SubTerms(t.fs[i].t) : i \in 1..Len(t.fs)}
             [] t.k = "fun" -> SubTerms(t.ret) \cup UNION {SubTerms(t.ps[i]) : i \in 1..Len(t.ps)}
             [] OTHER -> {}
VarsOf(t) == {u.n : u \in {v \in SubTerms(t) : v.k = "var"}}
\* pattern against a variable-free type: unification succeeds exactly when an instantiation exists
Complete == IsCase /\ SlotFree(st.y) /\ ~HasBotTop(st.y) /\ ~HasBotTop(st.x)
               => (st.u.ok <=> \E s \in [VarsOf(st.x) -> SubTerms(st.y)] : TypeEq(ApplySubst(st.x, s), st.y))
\* bottom / top: success with them present never contradicts the bot/top-free reading
BotTopOnlyByRule ==
  IsCase /\ st.u.ok /\ (HasBotTop(st.x) \/ HasBotTop(st.y)) /\ st.x.k \notin {"var"} /\ st.y.k \notin {"var"}
     => \/ st.y.k = "bot" \/ st.x.k = "top"
        \/ (IsComp(st.x) /\ st.x.k = st.y.k)
        \/ (IsPrim(st.x) /\ st.x.k = st.y.k)
=============================================================================
