---------------------------- MODULE YaeUniverse2 ----------------------------
(***************************************************************************)
(* Property-focused program universes (sequences of core trees over the    *)
(* standard environment E1):                                               *)
(*   ObjProgs      C01  objects in both field orders flowing through every *)
(*                      construct that can merge them, then accessed       *)
(*   PartialProgs  C02  every partial operation on edge operands; total    *)
(*                      functions on the same operands; size families      *)
(*   BuiltinProgs  C04  every operator / built-in on argument pools        *)
(*   LazyProgs     C06  tracers in every operand position, poisoned        *)
(*                      unselected branches, nested lazy calls             *)
(*   OptProgs      C16  optionals in every argument position               *)
(***************************************************************************)
EXTENDS YaeUniverse

S(cp) == EStr(cp)
Neg(e) == ECall(N_minus, <<e>>)
Div(a, b) == ECall(N_slash, <<a, b>>)
Not(e) == ECall(N_bang, <<e>>)
Mul(a, b) == ECall(N_star, <<a, b>>)
Add(a, b) == ECall(N_plus, <<a, b>>)
Gt(a, b) == ECall(N_gt, <<a, b>>)
Lt(a, b) == ECall(N_lt, <<a, b>>)
If(c, a, b) == ECall(N_if, <<c, a, b>>)
T(i, x) == ECall(N_t, <<EInt(i), x>>)        \* the tracing identity
Var(n) == EId(n)
Rep(e, n) == [i \in 1..n |-> e]

(* ------------------------------------------------------------------ C01 *)
ObLit == EObj(<<EFld(N_a, EInt(1)), EFld(N_b, S(<<120>>))>>)
ObaLit == EObj(<<EFld(N_b, S(<<121>>)), EFld(N_a, EInt(2))>>)
ObjLeaves == <<Var(N_ob), Var(N_oba), ObLit, ObaLit, Var(N_obx)>>
ListObjLits == Prod2(ObjLeaves, ObjLeaves, LAMBDA a, b : EList(<<a, b>>))
ListObj == <<Var(N_os)>> \o ListObjLits
ListObjFew == <<Var(N_os), EList(<<Var(N_ob), Var(N_oba)>>), EList(<<ObaLit, ObLit>>), EList(<<Var(N_oba), ObLit>>)>>
Idx01 == <<EInt(0), EInt(1)>>
BoolVars == <<Var(N_b), Var(N_c)>>
ListX == ListObjFew
           \o Prod2(ListObjFew, ListObjFew, LAMBDA a, b : ECall(N_union, <<a, b>>))
           \o Prod2(ListObjFew, ListObjFew, LAMBDA a, b : ECall(N_intersect, <<a, b>>))
           \o Prod2(ListObjFew, ListObjFew, LAMBDA a, b : ECall(N_diff, <<a, b>>))
           \o Prod3(BoolVars, ListObjFew, ListObjFew, LAMBDA c, a, b : If(c, a, b))
           \o Map1(ListObjFew, LAMBDA a : ECall(N_id, <<a>>))
ObjX == ObjLeaves
          \o Prod2(ListObj, Idx01, LAMBDA l, i : ESub(l, i))
          \o Prod2(ListX, Idx01, LAMBDA l, i : ESub(l, i))
          \o Prod3(BoolVars, ObjLeaves, ObjLeaves, LAMBDA c, a, b : If(c, a, b))
          \o Prod3(BoolVars, ObjLeaves, ObjLeaves, LAMBDA c, a, b : ECall(N_lif, <<c, a, b>>))
          \o Prod2(ObjLeaves, ObjLeaves, LAMBDA a, b : ECall(N_pick, <<a, b>>))
          \o Prod2(ObjLeaves, ObjLeaves, LAMBDA a, b : ECall(N_second, <<a, b>>))
          \o Map1(ObjLeaves, LAMBDA a : ECall(N_id, <<a>>))
          \o Map1(ObjLeaves, LAMBDA a : ECall(N_twice, <<a>>))
          \o Prod3(ListObjFew, <<EInt(0), EInt(1), EInt(5)>>, ObjLeaves, LAMBDA l, i, d : ECall(N_get, <<l, i, d>>))
          \o Prod2(ObjLeaves, ObjLeaves, LAMBDA a, b : ESub(EMap(<<EPair(S(<<107>>), a), EPair(S(<<106>>), b)>>), S(<<106>>)))
ObjUses(x) == <<EMem(x, N_a), EMem(x, N_b),
                Add(EMem(x, N_a), EInt(1)), Add(EMem(x, N_b), S(<<122>>)),
                ECall(N_h, <<x>>), ECall(N_string, <<x>>),
                EList(<<x, Var(N_ob)>>), EList(<<Var(N_oba), x>>),
                ECall(N_eqeq, <<EList(<<x>>), EList(<<Var(N_ob)>>)>>)>>
\* a monomorphic overload whose parameter holds a record nested in a record: the key of the overload table must not
\* depend on the order in which ANY record, at any depth, lists its fields
NestUses(x) == <<ECall(N_hn, <<EObj(<<EFld(N_o, x)>>)>>), Add(ECall(N_hn, <<EObj(<<EFld(N_o, x)>>)>>), EInt(1)),
                 ECall(N_hn, <<ECall(N_id, <<EObj(<<EFld(N_o, x)>>)>>)>>)>>
BotE == ESub(EList(<<>>), EInt(0))
DupProgs == <<EObj(<<EFld(N_a, EInt(1)), EFld(N_a, EInt(2))>>), EObj(<<EFld(N_a, EInt(1)), EFld(N_b, EInt(2)), EFld(N_a, S(<<120>>))>>),
              EObj(<<EFld(N_a, EInt(1)), EFld(N_b, EInt(2)), EFld(N_b, EInt(3))>>), EObj(<<EFld(N_a, EInt(1)), EFld(N_a, EInt(2)), EFld(N_a, EInt(3))>>),
              EMem(EObj(<<EFld(N_a, EInt(1)), EFld(N_b, S(<<120>>)), EFld(N_a, S(<<111>>))>>), N_a),
              EList(<<EObj(<<EFld(N_b, EInt(1)), EFld(N_a, EInt(2)), EFld(N_b, EInt(3))>>)>>),
              ECall(N_len, <<EList(<<EObj(<<EFld(N_a, EInt(1)), EFld(N_a, EInt(2))>>)>>)>>),
              EObj(<<EFld(N_c, EObj(<<EFld(N_a, EInt(1)), EFld(N_a, EInt(2))>>))>>), ECall(N_string, <<EObj(<<EFld(N_a, Var(N_n)), EFld(N_a, Var(N_s))>>)>>)>>
BotProgs == <<EMap(<<EPair(BotE, EInt(1))>>), ECall(N_len, <<EMap(<<EPair(BotE, EInt(1))>>)>>), EMap(<<EPair(EInt(1), BotE)>>),
              EMap(<<EPair(EInt(1), EInt(2)), EPair(BotE, EInt(1))>>), EList(<<BotE, EInt(1)>>), EList(<<EInt(1), BotE>>),
              If(Var(N_b), BotE, EInt(1)), If(Var(N_b), EInt(1), BotE), Add(BotE, EInt(1)), ESub(Var(N_xs), BotE),
              ECall(N_get, <<Var(N_xs), BotE, EInt(0)>>), ECall(N_get, <<Var(N_xs), EInt(0), BotE>>), EObj(<<EFld(N_a, BotE)>>),
              EMem(EObj(<<EFld(N_a, EMap(<<EPair(BotE, EInt(1))>>))>>), N_a), ECall(N_string, <<BotE>>), ECall(N_id, <<BotE>>),
              ECall(N_pick, <<BotE, EInt(1)>>), ECall(N_pick, <<EInt(1), BotE>>), ECall(N_eqeq, <<BotE, BotE>>),
              EMap(<<EPair(If(Var(N_b), BotE, BotE), Var(N_b))>>), ECall(N_union, <<EList(<<BotE>>), Var(N_xs)>>)>>
ObjProgs == Concat(Map1(ObjX, ObjUses)) \o ListX \o Concat(Map1(ObjLeaves, NestUses)) \o BotProgs
              \o <<ECall(N_hn, <<Var(N_ob)>>), ECall(N_hn, <<EObj(<<EFld(N_o, EInt(1))>>)>>), ECall(N_hn, <<EObj(<<EFld(N_o, Var(N_od))>>)>>)>> \o DupProgs

(* ------------------------------------------------------------------ C02 *)
Big(neg, d, r) == ENum([k |-> "big", neg |-> neg, d |-> d, r |-> r])
TwoTo53 == Big(FALSE, <<9,0,0,7,1,9,9,2,5,4,7,4,0,9,9,2>>, <<57,48,48,55,49,57,57,50,53,52,55,52,48,57,57,50>>)
PInf == Div(EInt(1), EInt(0))
NInf == Neg(PInf)
NaNe == Div(EInt(0), EInt(0))
IdxPool == <<EInt(0), EInt(1), EInt(2), EInt(3), EInt(100), ENum(Half(1)), ENum(Half(5)), ENum(Fin(23, 3, 0)),
             Neg(EInt(1)), Neg(ENum(Half(1))), Neg(EInt(3)), Var(N_q), Var(N_z), Var(N_p), Var(N_n),
             ENum(NInt(268435456)), TwoTo53, PInf, NInf, NaNe>>
ListsWithDefault == <<<<Var(N_xs), EInt(0)>>, <<Var(N_ys), EInt(0)>>, <<Var(N_ss), S(<<100>>)>>,
                      <<Var(N_os), Var(N_ob)>>, <<EList(<<EInt(7)>>), EInt(0)>>, <<EList(<<>>), EInt(0)>>>>
StrKeys == <<S(<<97>>), S(<<98>>), S(<<122, 122>>), S(<<>>), Var(N_s), Var(N_u), Var(N_w)>>
NumKeys == <<EInt(1), EInt(2), ENum(Half(5)), ENum(Half(1)), Var(N_n), Var(N_p), Neg(EInt(1)), TwoTo53, PInf, NaNe>>
NumPoolSmall == <<EInt(0), EInt(1), EInt(2), EInt(5), ENum(Half(1)), ENum(Half(5)), Neg(EInt(1)), Neg(EInt(5)), Neg(ENum(Half(5))), Neg(ENum(Half(1)))>>
Patterns == <<S(<<40>>), S(<<91>>), S(<<42>>), S(<<97, 40>>), S(<<43>>), S(<<63>>), S(<<92>>), S(<<97>>), S(<<97, 98>>), S(<<>>), S(<<98, 97>>)>>
Subjects == <<Var(N_s), Var(N_u), Var(N_w), S(<<97, 98, 99>>)>>
FName(i) == <<102>> \o NatDigits(i)
Sizes == <<41, 42, 43, 44, 255, 256, 257>>
WideSizes(size) == IF size >= 2 THEN <<499, 500, 501, 542, 543, 1042>> ELSE <<501>>
TotalOnEmpty == <<ECall(N_min, <<Var(N_ys)>>), ECall(N_max, <<Var(N_ys)>>), ECall(N_len, <<Var(N_ys)>>), ECall(N_string, <<Var(N_ys)>>),
                  ECall(N_min, <<ECall(N_diff, <<Var(N_xs), Var(N_xs)>>)>>), ECall(N_max, <<ECall(N_intersect, <<Var(N_xs), Var(N_ys)>>)>>),
                  ECall(N_min, <<ECall(N_union, <<Var(N_ys), Var(N_ys)>>)>>), ECall(N_len, <<EMap(<<>>)>>), ECall(N_len, <<EList(<<>>)>>),
                  ECall(N_get, <<Var(N_ys), EInt(0), EInt(1)>>), ECall(N_eqeq, <<Var(N_ys), ECall(N_diff, <<Var(N_xs), Var(N_xs)>>)>>),
                  ECall(N_len, <<S(<<>>)>>), ECall(N_max, <<Var(N_xs)>>), ECall(N_min, <<Var(N_xs)>>)>>
RECURSIVE DeepList(_), DeepAdd(_)
DeepList(n) == IF n = 0 THEN EInt(1) ELSE EList(<<DeepList(n - 1)>>)
DeepAdd(n) == IF n = 0 THEN EInt(1) ELSE Add(EInt(1), DeepAdd(n - 1))       \* right-nested: n live operands on the VM stack
SizeFamily(n) == <<
    EList(Rep(EInt(1), n)), ESub(EList(Rep(EInt(1), n)), EInt(n - 1)), ESub(EList(Rep(EInt(1), n)), EInt(n)),
    ECall(N_len, <<EList(Rep(EInt(1), n))>>),
    EMap([i \in 1..n |-> EPair(EInt(i), EInt(i))]), ESub(EMap([i \in 1..n |-> EPair(EInt(i), EInt(i))]), EInt(n)),
    EObj([i \in 1..n |-> EFld(FName(i), EInt(i))]), EMem(EObj([i \in 1..n |-> EFld(FName(i), EInt(i))]), FName(n)),
    EList(Rep(EList(Rep(EInt(1), 3)), n)),
    ECall(N_len, <<EList([i \in 1..n |-> S(NatDigits(i))])>>)           \* n distinct constants
  >>
PartialProgs(size) ==
  Concat(Map1(ListsWithDefault, LAMBDA ld : Map1(IdxPool, LAMBDA i : ESub(ld[1], i))))
    \o Concat(Map1(ListsWithDefault, LAMBDA ld : Map1(IdxPool, LAMBDA i : ECall(N_get, <<ld[1], i, ld[2]>>))))
    \o Map1(StrKeys, LAMBDA k : ESub(Var(N_m), k))
    \o Map1(StrKeys, LAMBDA k : ECall(N_get, <<Var(N_m), k, EInt(0)>>))
    \o Map1(StrKeys, LAMBDA k : ECall(N_isset, <<Var(N_m), k>>))
    \o Map1(StrKeys, LAMBDA k : If(ECall(N_isset, <<Var(N_m), k>>), ESub(Var(N_m), k), EInt(0)))
    \o Map1(NumKeys, LAMBDA k : ESub(Var(N_mm), k))
    \o Map1(NumKeys, LAMBDA k : ECall(N_get, <<Var(N_mm), k, S(<<100>>)>>))
    \o Map1(NumKeys, LAMBDA k : ECall(N_isset, <<Var(N_mm), k>>))
    \o Map1(NumKeys, LAMBDA k : ESub(EMap(<<EPair(k, EInt(1))>>), k))
    \o Prod2(NumPoolSmall, NumPoolSmall, LAMBDA a, b : ECall(N_percent, <<a, b>>))
    \o Map1(NumPoolSmall, LAMBDA a : ECall(N_percent, <<a, Var(N_z)>>))
    \o Prod2(Patterns, Subjects, LAMBDA p, s : ECall(N_match, <<p, s>>))
    \o Map1(IdxPool, LAMBDA i : ECall(N_andand, <<Lt(i, ECall(N_len, <<Var(N_xs)>>)), Gt(ESub(Var(N_xs), i), EInt(0))>>))
    \o Concat(Map1(IF size >= 2 THEN Sizes ELSE <<42, 43, 256, 257>>, SizeFamily))
    \o TotalOnEmpty
    \* more live operands than the VM stack's growth step
    \o Concat(Map1(WideSizes(size), LAMBDA n : <<ECall(N_len, <<EList(Rep(EInt(1), n))>>), ESub(EList(Rep(EInt(1), n)), EInt(n - 1)),
                                              ECall(N_len, <<EMap([i \in 1..(n \div 2) |-> EPair(EInt(i), EInt(i))])>>),
                                              Add(EInt(1), ECall(N_len, <<EList(Rep(EInt(2), n))>>))>>))
    \* nesting depth (TLC's JSON reader stops at 255 nested brackets, i.e. tree depth ~120)
    \o Concat(Map1(<<41, 42, 43, 44, 100>>, LAMBDA n : <<DeepList(n), DeepAdd(n), ECall(N_len, <<DeepList(n)>>)>>))

(* ------------------------------------------------------------------ C04 *)
Eps(n, s, j) == ENum(Fin(n, s, j))
NumPool(size) ==
  IF size <= 1 THEN <<EInt(0), EInt(1), EInt(2), EInt(3), ENum(Half(1)), ENum(Half(5)), ENum(Fin(7, 3, 0)),
                      Neg(EInt(1)), Neg(ENum(Half(5))), Var(N_n), Var(N_p), Var(N_q)>>
  ELSE <<EInt(0), EInt(1), EInt(2), EInt(3), EInt(10), EInt(100), ENum(Half(1)), ENum(Half(3)), ENum(Half(5)),
         ENum(Fin(7, 3, 0)), ENum(Fin(1, 3, 0)), ENum(Fin(1, 6, 0)), ENum(Fin(201, 1, 0)),
         Neg(EInt(1)), Neg(EInt(2)), Neg(ENum(Half(1))), Neg(ENum(Half(3))), Neg(ENum(Half(5))), Neg(ENum(Fin(7, 3, 0))),
         Var(N_n), Var(N_p), Var(N_q), Var(N_z),
         Eps(0, 0, 4), Eps(0, 0, 5), Eps(1, 0, 4), Eps(1, 0, 5), Eps(201, 1, 1),
         TwoTo53, PInf, NInf, NaNe>>
NumOps1 == <<N_plus, N_minus, N_abs, N_ceil, N_floor, N_round, N_string>>
NumOps2 == <<N_plus, N_minus, N_star, N_slash, N_percent, N_caret, N_gt, N_ge, N_lt, N_le, N_eqeq, N_ne, N_max, N_min>>
\* tolerance edge: x against x + j * 2^-32 ; 1e-9 lies between j = 4 and j = 5
EdgeBases == <<<<0, 0>>, <<1, 0>>, <<201, 1>>, <<3, 0>>>>
EdgePairs == Prod2(EdgeBases, <<0, 1, 3, 4, 5, 6, 8>>, LAMBDA bs, j : <<Eps(bs[1], bs[2], 0), Eps(bs[1], bs[2], j)>>)
\* the tolerance itself: differences of exactly 1e-9
TauE(t) == ENum(Tau(t))
TauPairs == <<<<EInt(0), TauE(1)>>, <<TauE(1), TauE(2)>>, <<TauE(1), TauE(1)>>, <<TauE(2), TauE(4)>>, <<TauE(1), TauE(4)>>,
              <<Neg(TauE(1)), EInt(0)>>, <<Neg(TauE(1)), TauE(1)>>, <<EInt(1), TauE(1)>>, <<Eps(0, 0, 4), TauE(1)>>, <<Eps(0, 0, 5), TauE(1)>>,
              <<Eps(0, 0, 9), TauE(2)>>>>
CmpOps == <<N_gt, N_ge, N_lt, N_le, N_eqeq, N_ne>>
BigPool == <<TwoTo53,
             Big(FALSE, <<9,0,0,7,1,9,9,2,5,4,7,4,0,9,9,4>>, <<57,48,48,55,49,57,57,50,53,52,55,52,48,57,57,52>>),
             Big(FALSE, <<9,2,2,3,3,7,2,0,3,6,8,5,4,7,7,5,8,0,8>>, <<57,50,50,51,51,55,50,48,51,54,56,53,52,55,55,54,48,48,48>>),
             Big(FALSE, <<9,2,2,3,3,7,2,0,3,6,8,5,4,7,7,7,8,5,6>>, <<57,50,50,51,51,55,50,48,51,54,56,53,52,55,55,56,48,48,48>>),
             Big(FALSE, <<1>> \o Rep(0, 19), <<49>> \o Rep(48, 19)),
             Big(FALSE, <<2>> \o Rep(0, 19), <<50>> \o Rep(48, 19)),
             ENum(NInt(1073741823)), PInf, NaNe>>
BigOps1 == <<N_minus, N_abs, N_string, N_floor, N_round>>
StrPool == <<S(<<>>), S(<<97>>), S(<<97, 98>>), S(<<233, 26195>>), S(<<97, 34, 98, 92>>), S(<<10, 9>>), S(<<128657>>), S(<<92, 110>>),
             Var(N_s), Var(N_u), Var(N_w)>>
StrOps2 == <<N_plus, N_eqeq, N_ne, N_match>>
BoolPool == <<EBool(TRUE), EBool(FALSE), Var(N_b), Var(N_c)>>
TimePool == <<ETime(0), ETime(86400), ETime(90000), Var(N_tm), Var(N_d), Var(N_tf), Var(N_tg),
              ECall(N_strtotime, <<S(<<64, 56, 54, 52, 48, 48>>)>>),
              ECall(N_strtotime, <<S(<<50,48,50,49,45,48,51,45,48,52,32,48,53,58,48,54,58,48,55>>)>>)>>
TimeOps2 == <<N_minus, N_gt, N_ge, N_lt, N_le, N_eqeq, N_ne>>
ListPool == <<EList(<<>>), EList(<<EInt(1)>>), EList(<<EInt(1), EInt(2)>>), EList(<<EInt(2), EInt(1)>>),
              EList(<<EInt(1), EInt(1), EInt(2)>>), EList(<<EInt(3), EInt(2), EInt(3), EInt(1)>>), Var(N_xs), Var(N_ys),
              EList(<<ENum(Half(1)), Neg(EInt(1))>>)>>
SListPool == <<Var(N_ss), EList(<<S(<<97>>)>>), EList(<<S(<<98>>), S(<<97>>), S(<<98>>)>>), EList(<<>>)>>
ListOps2 == <<N_eqeq, N_ne, N_union, N_intersect, N_diff>>
ListOps1 == <<N_len, N_max, N_min, N_string>>
MapPool == <<Var(N_m), EMap(<<>>), EMap(<<EPair(S(<<97>>), EInt(1))>>),
             EMap(<<EPair(S(<<98>>), EInt(2)), EPair(S(<<97>>), EInt(1))>>),
             EMap(<<EPair(S(<<97>>), EInt(1)), EPair(S(<<97>>), EInt(2))>>),
             EMap(<<EPair(S(<<97>>), EInt(2)), EPair(S(<<98>>), EInt(2))>>)>>
NMapPool == <<EMap(<<EPair(EInt(9), S(<<110>>)), EPair(EInt(10), S(<<116>>)), EPair(ENum(Fin(11, 1, 0)), S(<<102>>))>>),
              EMap(<<EPair(ENum(Fin(11, 1, 0)), S(<<102>>)), EPair(EInt(10), S(<<116>>)), EPair(EInt(9), S(<<110>>))>>),
              EMap(<<EPair(Neg(EInt(20)), S(<<97>>)), EPair(Neg(EInt(1)), S(<<98>>)), EPair(Neg(ENum(Half(3))), S(<<99>>)), EPair(EInt(5), S(<<100>>))>>),
              Var(N_mm), EMap(<<EPair(EInt(1), S(<<120>>)), EPair(ENum(Half(5)), S(<<121>>))>>),
              EMap(<<EPair(EInt(1), S(<<97>>)), EPair(EInt(1), S(<<98>>))>>),
              EMap(<<EPair(EInt(10), S(<<97>>)), EPair(EInt(9), S(<<98>>)), EPair(EInt(100), S(<<99>>))>>)>>
MapOps2 == <<N_eqeq, N_ne>>
\* IEEE corners: NaN, the infinities and the two zeros through comparisons (plain and negated), max / min (binary and list
\* forms) and everything that can produce a zero, whose sign is then exposed by 1 / x
Specials == <<NaNe, PInf, NInf, EInt(1), EInt(0), Neg(EInt(0)), Neg(EInt(2))>>
ZeroMakers == <<EInt(0), Neg(EInt(0)), Neg(Neg(EInt(0))), Mul(Neg(EInt(1)), EInt(0)), Mul(EInt(0), Neg(EInt(1))), Mul(Neg(EInt(0)), Neg(EInt(1))),
                Div(EInt(0), Neg(EInt(2))), Div(Neg(EInt(0)), Neg(EInt(2))), Div(EInt(1), NInf), Div(Neg(EInt(1)), PInf),
                ECall(N_ceil, <<Neg(ENum(Half(1)))>>), ECall(N_round, <<Neg(ENum(Fin(1, 2, 0)))>>), ECall(N_floor, <<Neg(EInt(0))>>),
                ECall(N_floor, <<ENum(Half(1))>>), ECall(N_abs, <<Neg(EInt(0))>>), Add(Neg(EInt(0)), EInt(0)), Add(Neg(EInt(0)), Neg(EInt(0))),
                ECall(N_minus, <<Neg(EInt(0)), EInt(0)>>), ECall(N_minus, <<EInt(0), EInt(0)>>), ECall(N_percent, <<Neg(EInt(4)), EInt(2)>>),
                ECall(N_min, <<EInt(0), Neg(EInt(0))>>), ECall(N_max, <<Neg(EInt(0)), EInt(0)>>), ECall(N_max, <<Neg(EInt(0)), Neg(EInt(0))>>),
                ECall(N_min, <<EList(<<EInt(0), Neg(EInt(0))>>)>>), ECall(N_max, <<EList(<<Neg(EInt(0)), EInt(0)>>)>>),
                ECall(N_max, <<EList(<<Neg(EInt(0))>>)>>), ECall(N_caret, <<Neg(EInt(0)), EInt(3)>>)>>
SpecialProgs ==
  Prod3(CmpOps, Specials, Specials, LAMBDA f, a, b : Not(ECall(f, <<a, b>>)))
    \o Prod3(CmpOps, Specials, Specials, LAMBDA f, a, b : ECall(f, <<a, b>>))
    \o Prod3(<<N_max, N_min>>, Specials, Specials, LAMBDA f, a, b : ECall(f, <<a, b>>))
    \o Prod3(<<N_max, N_min>>, Specials, Specials, LAMBDA f, a, b : ECall(f, <<EList(<<a, b>>)>>))
    \o Prod3(<<N_max, N_min>>, Specials, Specials, LAMBDA f, a, b : ECall(f, <<EList(<<EInt(1), a, b>>)>>))
    \o Map1(ZeroMakers, LAMBDA z : Div(EInt(1), z))
    \o Map1(ZeroMakers, LAMBDA z : ECall(N_string, <<z>>))
    \o Map1(ZeroMakers, LAMBDA z : ECall(N_eqeq, <<z, EInt(0)>>))
    \o Map1(ZeroMakers, LAMBDA z : ESub(Var(N_xs), z))
    \o Map1(ZeroMakers, LAMBDA z : ECall(N_len, <<EMap(<<EPair(z, EInt(1)), EPair(EInt(0), EInt(2))>>)>>))
    \* instants with and without fractional seconds, subtracted and compared
    \o Prod3(<<N_minus, N_gt, N_ge, N_lt, N_le, N_eqeq, N_ne>>, <<Var(N_tf), Var(N_tg), Var(N_tm), Var(N_d)>>, <<Var(N_tf), Var(N_tg), Var(N_tm)>>,
              LAMBDA f, a, b : ECall(f, <<a, b>>))
    \o <<If(Gt(ECall(N_minus, <<Var(N_tg), Var(N_tf)>>), ENum(Half(1))), S(<<108>>), S(<<111>>)),
         ECall(N_eqeq, <<ECall(N_minus, <<Var(N_tf), Var(N_tm)>>), EInt(0)>>)>>
BuiltinProgs(size) ==
  LET NP == NumPool(size) IN
  SpecialProgs \o
  Concat(Map1(NumOps1, LAMBDA f : Calls1f(f, NP)))
    \o Concat(Map1(NumOps2, LAMBDA f : Calls2f(f, NP, NP)))
    \o Concat(Map1(CmpOps, LAMBDA f : Concat(Map1(EdgePairs, LAMBDA pr : <<ECall(f, <<pr[1], pr[2]>>), ECall(f, <<pr[2], pr[1]>>)>>))))
    \o Concat(Map1(CmpOps \o <<N_max, N_min, N_minus, N_plus>>, LAMBDA f : Concat(Map1(TauPairs, LAMBDA pr : <<ECall(f, <<pr[1], pr[2]>>), ECall(f, <<pr[2], pr[1]>>)>>))))
    \o Map1(TauPairs, LAMBDA pr : ECall(N_string, <<EList(<<pr[1], pr[2]>>)>>))
    \o Concat(Map1(BigOps1, LAMBDA f : Calls1f(f, BigPool)))
    \o Concat(Map1(CmpOps \o <<N_max, N_min>>, LAMBDA f : Calls2f(f, BigPool, BigPool)))
    \o Map1(BigPool, LAMBDA x : EList(<<x>>))
    \o Prod2(BigPool, BigPool, LAMBDA x, y : ECall(N_len, <<EMap(<<EPair(x, EInt(1)), EPair(y, EInt(2))>>)>>))
    \o Prod2(BigPool, BigPool, LAMBDA x, y : ECall(N_len, <<ECall(N_union, <<EList(<<x>>), EList(<<y>>)>>)>>))
    \o Concat(Map1(StrOps2, LAMBDA f : Calls2f(f, StrPool, StrPool)))
    \o Calls1f(N_len, StrPool) \o Calls1f(N_string, StrPool) \o Calls1f(N_print, StrPool)
    \o Concat(Map1(<<N_eqeq, N_ne, N_andand, N_oror>>, LAMBDA f : Calls2f(f, BoolPool, BoolPool)))
    \o Calls1f(N_bang, BoolPool) \o Calls1f(N_string, BoolPool)
    \o Concat(Map1(TimeOps2, LAMBDA f : Calls2f(f, TimePool, TimePool)))
    \o Calls1f(N_string, TimePool)
    \o Concat(Map1(ListOps1, LAMBDA f : Calls1f(f, ListPool \o SListPool)))
    \o Concat(Map1(ListOps2, LAMBDA f : Calls2f(f, ListPool, ListPool) \o Calls2f(f, SListPool, SListPool)))
    \o Prod3(ListPool, <<EInt(0), EInt(1), EInt(3), ENum(Half(3))>>, <<EInt(9)>>, LAMBDA l, i, d : ECall(N_get, <<l, i, d>>))
    \o Concat(Map1(MapOps2, LAMBDA f : Calls2f(f, MapPool, MapPool) \o Calls2f(f, NMapPool, NMapPool)))
    \o Calls1f(N_len, MapPool \o NMapPool) \o Calls1f(N_string, MapPool \o NMapPool)
    \o Prod2(MapPool, StrKeys, LAMBDA m, k : ECall(N_isset, <<m, k>>))
    \o Prod2(MapPool, StrKeys, LAMBDA m, k : ECall(N_get, <<m, k, EInt(9)>>))
    \o Prod2(NMapPool, NumKeys, LAMBDA m, k : ECall(N_get, <<m, k, S(<<100>>)>>))
    \o <<ECall(N_get, <<Var(N_mx), EInt(0)>>), ECall(N_get, <<Var(N_mj), EInt(0)>>), ECall(N_string, <<Var(N_mx)>>),
         ECall(N_string, <<Var(N_mj)>>), ECall(N_string, <<Var(N_ob)>>), ECall(N_string, <<Var(N_oba)>>),
         ECall(N_string, <<Var(N_os)>>), ECall(N_string, <<EObj(<<EFld(N_c, EInt(1)), EFld(N_a, EInt(2)), EFld(N_b, EInt(3))>>)>>),
         EObj(<<EFld(N_c, EInt(1)), EFld(N_a, EInt(2)), EFld(N_b, EInt(3))>>),
         EList(<<Var(N_xs), Var(N_xs)>>), ECall(N_string, <<EList(<<Var(N_xs), Var(N_xs)>>)>>)>>

(* ------------------------------------------------------------------ C06 *)
PoisonNum == <<ESub(Var(N_xs), EInt(99)), ECall(N_percent, <<EInt(1), EInt(0)>>), ESub(Var(N_m), S(<<122, 122>>)),
               EMem(ESub(Var(N_os), EInt(99)), N_a), EMem(T(9, Var(N_ob)), N_a)>>
PoisonBool == Map1(PoisonNum, LAMBDA p : Gt(p, EInt(0)))
Bools == <<EBool(TRUE), EBool(FALSE)>>
CondFns == <<N_if, N_lif>>
AndOr == <<N_andand, N_oror>>
LazyProgs ==
  \* conditionals: traced condition, traced or poisoned branches
  Prod3(CondFns, Bools, <<0>>, LAMBDA f, c, x : ECall(f, <<T(1, c), T(2, EInt(1)), T(3, EInt(2))>>))
    \o Prod3(CondFns, Bools, PoisonNum, LAMBDA f, c, p : ECall(f, <<T(1, c), p, T(3, EInt(2))>>))
    \o Prod3(CondFns, Bools, PoisonNum, LAMBDA f, c, p : ECall(f, <<T(1, c), T(2, EInt(1)), p>>))
    \o Prod3(AndOr, Bools, Bools, LAMBDA f, c, d : ECall(f, <<T(1, c), T(2, d)>>))
    \o Prod3(AndOr, Bools, PoisonBool, LAMBDA f, c, p : ECall(f, <<T(1, c), p>>))
    \o Prod3(AndOr, Bools, PoisonBool, LAMBDA f, c, p : ECall(f, <<p, T(1, c)>>))
    \* literal operands next to effectful / failing ones
    \o Prod3(AndOr, Bools, Bools, LAMBDA f, c, d : ECall(f, <<T(1, c), d>>))
    \o Prod3(AndOr, Bools, Bools, LAMBDA f, c, d : ECall(f, <<d, T(1, c)>>))
    \o Prod3(AndOr, PoisonBool, Bools, LAMBDA f, p, d : ECall(f, <<p, d>>))
    \o Prod3(AndOr, PoisonBool, Bools, LAMBDA f, p, d : ECall(f, <<d, p>>))
    \o Prod3(CondFns, Bools, PoisonNum, LAMBDA f, c, p : ECall(f, <<c, p, EInt(2)>>))
    \o Prod3(CondFns, Bools, PoisonNum, LAMBDA f, c, p : ECall(f, <<c, EInt(1), p>>))
    \o Prod3(CondFns, PoisonBool, Bools, LAMBDA f, p, c : ECall(f, <<p, EInt(1), EInt(2)>>))
    \* nested lazy calls: thunks that call lazy functions
    \o Prod3(Bools, Bools, PoisonNum, LAMBDA c, d, p : If(T(1, c), If(T(2, d), T(3, EInt(1)), p), T(4, EInt(2))))
    \o Prod3(Bools, Bools, PoisonNum, LAMBDA c, d, p : If(T(1, c), p, ECall(N_lif, <<T(2, d), p, T(3, EInt(7))>>)))
    \o Prod3(Bools, Bools, PoisonBool, LAMBDA c, d, p : If(ECall(N_andand, <<T(1, c), ECall(N_oror, <<T(2, d), p>>)>>), T(3, EInt(1)), T(4, EInt(2))))
    \o Prod2(Bools, PoisonNum, LAMBDA c, p : ECall(N_twice, <<If(T(1, c), T(2, EInt(1)), p)>>))
    \o Prod2(Bools, Bools, LAMBDA c, d : ECall(N_twice, <<ECall(N_andand, <<T(1, c), T(2, d)>>)>>))
    \o Map1(PoisonNum, LAMBDA p : ECall(N_never, <<p>>))
    \o Map1(PoisonNum, LAMBDA p : ECall(N_second, <<p, T(1, EInt(5))>>))
    \o Map1(PoisonNum, LAMBDA p : ECall(N_second, <<T(1, EInt(5)), p>>))
    \o <<ECall(N_twice, <<T(1, Var(N_n))>>), ECall(N_never, <<T(1, Var(N_n))>>),
         ECall(N_twice, <<ECall(N_twice, <<T(1, EInt(1))>>)>>),
         ECall(N_never, <<ECall(N_twice, <<T(1, EInt(1))>>)>>),
         ECall(N_twice, <<ECall(N_never, <<T(1, EInt(1))>>)>>),
    \* strict positions: left to right, exactly once
         EList(<<T(1, EInt(1)), T(2, EInt(2)), T(3, EInt(3))>>),
         EMap(<<EPair(T(1, S(<<97>>)), T(2, EInt(1))), EPair(T(3, S(<<98>>)), T(4, EInt(2)))>>),
         EMap(<<EPair(T(1, S(<<97>>)), T(2, EInt(1))), EPair(T(3, S(<<97>>)), T(4, EInt(2)))>>),
         EObj(<<EFld(N_b, T(1, EInt(1))), EFld(N_a, T(2, S(<<120>>)))>>),
         Add(T(1, EInt(1)), ECall(N_star, <<T(2, EInt(2)), T(3, EInt(3))>>)),
         ECall(N_pick, <<T(1, EInt(1)), T(2, EInt(2))>>),
         ECall(N_get, <<T(1, Var(N_xs)), T(2, EInt(5)), T(3, EInt(0))>>),
         ECall(N_get, <<T(1, Var(N_m)), T(2, S(<<122>>)), T(3, EInt(0))>>),
         ESub(T(1, Var(N_xs)), T(2, EInt(0))), ESub(T(1, Var(N_m)), T(2, S(<<97>>))),
         ESub(T(1, Var(N_xs)), T(2, EInt(9))), ESub(T(1, Var(N_m)), T(2, S(<<122>>))),
         EMem(T(1, Var(N_ob)), N_a),
         EDyn(ESub(T(1, Var(N_fs)), T(2, EInt(0))), <<T(3, EInt(3))>>),
         EDyn(If(T(1, EBool(TRUE)), ESub(Var(N_fs), EInt(0)), ESub(Var(N_fs), T(2, EInt(0)))), <<T(3, EInt(4))>>),
         ECall(N_t, <<T(1, EInt(7)), T(2, EInt(8))>>),
         EList(<<T(1, EInt(1)), ESub(Var(N_xs), EInt(99)), T(2, EInt(2))>>),
         Add(T(1, EInt(1)), Add(ECall(N_percent, <<T(2, EInt(1)), T(3, EInt(0))>>), T(4, EInt(4)))),
    \* guarded partial operations can never fail
         If(ECall(N_isset, <<Var(N_m), S(<<122, 122>>)>>), ESub(Var(N_m), S(<<122, 122>>)), EInt(0)),
         If(ECall(N_isset, <<Var(N_m), S(<<97>>)>>), ESub(Var(N_m), S(<<97>>)), EInt(0)),
         ECall(N_andand, <<Lt(EInt(5), ECall(N_len, <<Var(N_xs)>>)), Gt(ESub(Var(N_xs), EInt(5)), EInt(0))>>),
         ECall(N_oror, <<ECall(N_ge, <<EInt(5), ECall(N_len, <<Var(N_xs)>>)>>), Gt(ESub(Var(N_xs), EInt(5)), EInt(0))>>),
         If(Gt(ECall(N_len, <<Var(N_ys)>>), EInt(0)), ESub(Var(N_ys), EInt(0)), Neg(EInt(1))),
         If(ECall(N_ne, <<Var(N_z), EInt(0)>>), ECall(N_percent, <<EInt(7), Var(N_z)>>), EInt(0))>>

(* ------------------------------------------------------------------ C11 / C03: bytecode shapes *)
AndE(a, b) == ECall(N_andand, <<a, b>>)
OrE(a, b) == ECall(N_oror, <<a, b>>)
BVars == <<Var(N_b), Var(N_c)>>
\* a conditional spanning more than 255 bytes: each element costs 3 bytes
BigList(n) == EList(Rep(EInt(1), n))
BcProgs ==
  \* negations around and inside conditionals (branch ends, jump targets)
  Prod2(BVars, BVars, LAMBDA a, b : Not(OrE(a, Not(b)))) \o Prod2(BVars, BVars, LAMBDA a, b : Not(AndE(a, Not(b))))
    \o Prod2(BVars, BVars, LAMBDA a, b : Not(If(a, b, Not(b)))) \o Prod2(BVars, BVars, LAMBDA a, b : Not(If(a, Not(b), b)))
    \o Prod2(BVars, BVars, LAMBDA a, b : If(Not(a), Not(b), Not(Not(b)))) \o Map1(BVars, LAMBDA a : Not(Not(a)))
    \o Map1(BVars, LAMBDA a : Not(Not(Not(a)))) \o Prod2(BVars, BVars, LAMBDA a, b : Not(ECall(N_lif, <<a, b, Not(b)>>)))
    \o Prod2(BVars, BVars, LAMBDA a, b : OrE(Not(a), Not(b))) \o Prod2(BVars, BVars, LAMBDA a, b : AndE(Not(a), Not(Not(b))))
    \o Prod2(BVars, BVars, LAMBDA a, b : If(OrE(a, Not(b)), EInt(1), EInt(2))) \o Prod2(BVars, BVars, LAMBDA a, b : If(AndE(a, Not(b)), EInt(1), EInt(2)))
    \o Prod2(BVars, BVars, LAMBDA a, b : OrE(OrE(a, Not(b)), Var(N_c))) \o Prod2(BVars, BVars, LAMBDA a, b : AndE(OrE(a, Not(b)), Var(N_b)))
    \o Prod2(BVars, BVars, LAMBDA a, b : If(If(a, Var(N_c), Not(b)), EInt(1), EInt(2)))
    \o Prod2(BVars, BVars, LAMBDA a, b : If(ECall(N_lif, <<a, Var(N_c), Not(b)>>), EInt(1), EInt(2)))
    \o Prod2(BVars, BVars, LAMBDA a, b : ECall(N_lif, <<a, EInt(1), If(b, EInt(2), EInt(3))>>))
    \o Prod2(BVars, BVars, LAMBDA a, b : ECall(N_lif, <<a, If(b, EInt(1), EInt(2)), If(AndE(a, b), EInt(3), EInt(4))>>))
    \o Prod2(BVars, BVars, LAMBDA a, b : ECall(N_second, <<T(1, EInt(1)), If(OrE(a, b), EInt(5), EInt(6))>>))
    \o Prod2(BVars, BVars, LAMBDA a, b : ECall(N_lif, <<OrE(a, b), AndE(a, b), OrE(Not(a), b)>>))
    \o Concat(Map1(<<53, 54, 55, 56, 57>>, LAMBDA n :
          <<Add(FoldLeft(LAMBDA acc, i : Add(acc, EInt(1)), EInt(1), Rep(0, n - 1)), If(Var(N_b), EInt(10), EInt(20))),
            Add(FoldLeft(LAMBDA acc, i : Add(acc, EInt(1)), EInt(1), Rep(0, n - 1)), If(Not(Var(N_c)), EInt(10), EInt(20)))>>))
    \* a conditional that is the LAST operand of an operator / call / literal inside a branch of another conditional
    \o Prod2(BVars, BVars, LAMBDA a, b : If(a, Add(EInt(1), If(b, EInt(2), EInt(3))), EInt(4)))
    \o Prod2(BVars, BVars, LAMBDA a, b : AndE(a, Gt(Var(N_n), If(b, EInt(1), EInt(10)))))
    \o Prod2(BVars, BVars, LAMBDA a, b : If(a, ECall(N_max, <<Var(N_n), If(b, EInt(5), EInt(10))>>), EInt(0)))
    \o Prod3(BVars, BVars, BVars, LAMBDA c, a, b : If(c, If(a, EInt(0), Add(EInt(1), If(b, EInt(2), EInt(3)))), EInt(9)))
    \o Prod2(BVars, BVars, LAMBDA a, b : ESub(If(a, EList(<<EInt(7), If(b, EInt(1), EInt(2))>>), EList(<<EInt(8), EInt(9)>>)), EInt(1)))
    \o Prod2(BVars, BVars, LAMBDA a, b : If(a, ESub(Var(N_xs), If(b, EInt(0), EInt(1))), Neg(If(b, EInt(1), EInt(2)))))
    \o Prod2(BVars, BVars, LAMBDA a, b : OrE(a, Not(AndE(b, Gt(If(a, EInt(1), EInt(2)), EInt(1))))))
    \* conditionals whose branches are literals with constant keys / names around variables
    \o Prod2(BVars, <<Var(N_n), EInt(3)>>, LAMBDA a, x : ESub(If(a, EMap(<<EPair(S(<<114>>), x)>>), EMap(<<EPair(S(<<114>>), EInt(0))>>)), S(<<114>>)))
    \o Prod2(BVars, <<Var(N_s), S(<<122>>)>>, LAMBDA a, x : ECall(N_get, <<If(a, EMap(<<EPair(S(<<110>>), x)>>), EMap(<<EPair(S(<<110>>), S(<<111>>))>>)), S(<<116>>), S(<<63>>)>>))
    \o Map1(BVars, LAMBDA a : If(a, EList(<<EMap(<<EPair(S(<<107>>), Var(N_n))>>)>>), EList(<<EMap(<<EPair(S(<<107>>), EInt(1))>>)>>)))
    \o Map1(BVars, LAMBDA a : EMem(If(a, EObj(<<EFld(N_a, EMap(<<EPair(EInt(1), Var(N_s))>>))>>), EObj(<<EFld(N_a, EMap(<<EPair(EInt(1), S(<<120>>))>>))>>)), N_a))
    \o Map1(BVars, LAMBDA a : OrE(a, ECall(N_isset, <<EMap(<<EPair(S(<<107>>), Var(N_n))>>), Var(N_s)>>)))
    \o Map1(BVars, LAMBDA a : ECall(N_lif, <<a, EMap(<<EPair(S(<<107>>), Var(N_n))>>), EMap(<<EPair(S(<<106>>), Var(N_p))>>)>>))
    \* an operand whose constant index is a given byte value, then an operator
    \o Concat(Map1(<<1, 2, 54, 55, 56, 57, 255, 256, 257, 310, 311, 312>>, LAMBDA n :
          <<ESub(EList(Rep(EBool(TRUE), n) \o <<Not(Var(N_c))>>), EInt(n)),
            ESub(EList(Rep(EInt(7), n) \o <<Neg(Var(N_n))>>), EInt(n)),
            ESub(EList(Rep(EInt(7), n) \o <<ECall(N_abs, <<Var(N_q)>>)>>), EInt(n)),
            ECall(N_len, <<EList(Rep(S(<<97>>), n) \o <<Add(Var(N_s), Var(N_s))>>)>>)>>))
    \* literals spelled like variables of the same program, repeated literals, repeated variables
    \o <<ECall(N_eqeq, <<Var(N_s), S(N_s)>>), ECall(N_eqeq, <<S(N_s), Var(N_s)>>), Add(S(N_u), Add(Var(N_u), S(N_u))),
         Add(ESub(EMap(<<EPair(S(N_n), Var(N_n)), EPair(S(N_p), Var(N_p))>>), S(N_n)), Var(N_n)),
         If(Var(N_b), EInt(1), ECall(N_len, <<If(Var(N_b), S(N_b), S(N_c))>>)),
         EList(<<Var(N_s), S(N_s), Var(N_s), S(N_s)>>), Add(Add(Var(N_n), Var(N_n)), Add(EInt(3), EInt(3))),
         ECall(N_lif, <<Var(N_b), S(N_b), Var(N_s)>>), ECall(N_twice, <<Add(S(N_s), Var(N_s))>>)>>
    \* jumps over more than 255 / 65535 bytes
    \o Concat(Map1(<<84, 85, 86, 90, 200>>, LAMBDA n :
          <<ECall(N_len, <<If(Var(N_b), BigList(n), BigList(2))>>), ECall(N_len, <<If(Var(N_c), BigList(n), BigList(3))>>),
            ECall(N_len, <<If(Var(N_c), BigList(2), BigList(n))>>),
            AndE(Gt(ECall(N_len, <<BigList(n)>>), EInt(0)), Var(N_b)), OrE(Var(N_c), Gt(ECall(N_len, <<BigList(n)>>), EInt(0)))>>))
    \* deferred arguments inside deferred arguments, mixed with intrinsic conditionals
    \o Prod2(BVars, BVars, LAMBDA a, b : ECall(N_lif, <<a, ECall(N_lif, <<b, T(1, EInt(1)), T(2, EInt(2))>>), ECall(N_twice, <<T(3, EInt(3))>>)>>))
    \o Prod2(BVars, BVars, LAMBDA a, b : ECall(N_twice, <<If(a, ECall(N_second, <<T(1, EInt(1)), T(2, EInt(2))>>), ECall(N_never, <<T(3, b)>>))>>))
    \o Prod2(BVars, BVars, LAMBDA a, b : ECall(N_second, <<AndE(a, T(1, b)), OrE(T(2, a), ECall(N_lif, <<b, a, T(3, b)>>))>>))
    \o <<ECall(N_pair, <<EInt(7), EInt(9)>>), ESub(ECall(N_pair, <<EInt(7), EInt(9)>>), EInt(1)), ESub(ECall(N_pair, <<EInt(7), EInt(9)>>), EInt(0)),
         Add(ESub(ECall(N_pair, <<T(1, EInt(7)), EInt(9)>>), EInt(0)), ESub(ECall(N_pair, <<EInt(3), EInt(4)>>), EInt(1))),
         ECall(N_len, <<ECall(N_pair, <<Add(EInt(1), EInt(2)), ECall(N_len, <<Var(N_xs)>>)>>)>>),
         EList(<<ECall(N_pair, <<EInt(1), EInt(2)>>), ECall(N_pair, <<EInt(3), EInt(4)>>)>>)>>

(* ------------------------------------------------------------------ C18: four notions of sameness *)
L1(x) == EList(<<x>>)
Eq(a, b) == ECall(N_eqeq, <<a, b>>)
LenOf(e) == ECall(N_len, <<e>>)
\* one program per pair: [ ==, one element under union (both orders), intersect, diff, (scalars:) one map entry / key found ]
SameProg(x, y, scalar) ==
  \* (the canonical rendering itself -- val.String -- is recorded for every result and compared by Trace_Eval;
  \*  set membership is decided by it)
  EList(<<Eq(L1(x), L1(y)), Eq(LenOf(ECall(N_union, <<L1(y), L1(x)>>)), EInt(1)),
          Eq(LenOf(ECall(N_union, <<L1(x), L1(y)>>)), EInt(1)),
          Eq(LenOf(ECall(N_intersect, <<L1(x), L1(y)>>)), EInt(1)),
          Eq(LenOf(ECall(N_diff, <<L1(x), L1(y)>>)), EInt(0)),
          \* ... also when the other operand is empty (an empty list of the right type: [x] without x)
          Eq(LenOf(ECall(N_union, <<EList(<<x, y>>), ECall(N_diff, <<L1(x), L1(x)>>)>>)), EInt(1)),
          Eq(LenOf(ECall(N_union, <<ECall(N_diff, <<L1(y), L1(y)>>), EList(<<y, x>>)>>)), EInt(1)),
          Eq(LenOf(ECall(N_diff, <<EList(<<x, y>>), ECall(N_diff, <<L1(y), L1(y)>>)>>)), EInt(1))>>
        \o (IF scalar THEN <<Eq(LenOf(EMap(<<EPair(x, EInt(0)), EPair(y, EInt(0))>>)), EInt(1)),
                             ECall(N_isset, <<EMap(<<EPair(x, EInt(0))>>), y>>)>> ELSE <<>>))
\* ... and numbers a hair (2^-32 < 1e-9) beside an integer, with the integers on either side of them
SameNear == <<ENum(Fin(3, 0, -1)), ENum(Fin(3, 0, 1)), ENum(Fin(8, 0, -2)), Neg(ENum(Fin(3, 0, -1))), Neg(ENum(Fin(2, 0, 1))),
              EInt(2), EInt(3), EInt(7), EInt(8), Neg(EInt(2)), Neg(EInt(3))>>
SameNums == <<EInt(0), EInt(1), ENum(Half(1)), ENum(Half(5)), Neg(EInt(1)), Neg(ENum(Half(5))), EInt(10), EInt(9), EInt(100)>> \o BigPool \o SameNear
\* (a backslash spelling an escape next to the character the escape denotes: they must stay apart)
SameStrs == <<S(<<>>), S(<<97>>), S(<<97, 34, 98, 92>>), S(<<233>>), S(<<10>>), S(<<97, 98>>), S(<<49>>), Var(N_s),
              S(<<92, 110>>), S(<<92>>), S(<<92, 120, 48, 49>>), S(<<9>>), S(<<92, 116>>)>>
SameBools == <<EBool(TRUE), EBool(FALSE), Var(N_b)>>
SameTimes == <<ETime(0), ETime(86400), Var(N_tm), ECall(N_strtotime, <<S(<<64, 56, 54, 52, 48, 48>>)>>)>>
SameLists == <<EList(<<EInt(1), EInt(2)>>), EList(<<EInt(2), EInt(1)>>), EList(<<EInt(1), EInt(2), EInt(1)>>), EList(<<ENum(Half(1))>>),
               Var(N_xs), EList(<<EInt(1), EInt(2), EInt(3)>>), Var(N_ys), EList(<<>>)>>
SameMaps == <<EMap(<<EPair(EInt(9), EInt(1)), EPair(EInt(10), EInt(2)), EPair(ENum(Fin(11, 1, 0)), EInt(3))>>),
              EMap(<<EPair(ENum(Fin(11, 1, 0)), EInt(3)), EPair(EInt(10), EInt(2)), EPair(EInt(9), EInt(1))>>),
              EMap(<<EPair(S(<<97>>), EInt(1)), EPair(S(<<98>>), EInt(2))>>), EMap(<<EPair(S(<<98>>), EInt(2)), EPair(S(<<97>>), EInt(1))>>),
              EMap(<<EPair(S(<<97>>), EInt(1)), EPair(S(<<98>>), EInt(3))>>), Var(N_m),
              EMap(<<EPair(S(<<97>>), EInt(2)), EPair(S(<<97>>), EInt(1)), EPair(S(<<98>>), EInt(2))>>)>>
Obj3(a, b, c, perm) == LET fs == <<EFld(N_a, a), EFld(N_b, b), EFld(N_c, c)>> IN EObj([i \in 1..3 |-> fs[perm[i]]])
SameObjs == <<Var(N_ob), Var(N_oba), ObLit, ObaLit, EObj(<<EFld(N_a, EInt(1)), EFld(N_b, S(<<121>>))>>),
              EObj(<<EFld(N_b, S(<<120>>)), EFld(N_a, EInt(1))>>)>>
SameObjs3 == <<Obj3(EInt(2), EInt(3), EInt(1), <<3, 1, 2>>), Obj3(EInt(2), EInt(3), EInt(1), <<1, 2, 3>>), Obj3(EInt(2), EInt(3), EInt(1), <<2, 3, 1>>),
               Obj3(EInt(2), EInt(3), EInt(4), <<3, 2, 1>>), Obj3(EInt(3), EInt(2), EInt(1), <<1, 3, 2>>)>>
SameOpts == <<Var(N_mx), Var(N_mj), ESub(Var(N_lo), EInt(0)), ESub(Var(N_lo), EInt(1))>>
SameNested == <<EList(<<Var(N_ob), Var(N_oba)>>), EList(<<Var(N_oba), Var(N_ob)>>), Var(N_os), EList(<<ObLit, ObaLit>>),
                EList(<<EList(<<EInt(1)>>), EList(<<>> )>>),
                \* one (empty / absent / non-empty) value occurring twice in the value that is rendered
                EList(<<Var(N_me), Var(N_me)>>), EList(<<Var(N_me), If(Var(N_c), Var(N_m), Var(N_me))>>), EList(<<Var(N_ys), Var(N_ys)>>),
                EList(<<Var(N_m), Var(N_m)>>), EList(<<Var(N_mx), Var(N_mx)>>), EList(<<Var(N_w), Var(N_w)>>),
                EList(<<Var(N_ob), Var(N_ob)>>), EList(<<EList(<<Var(N_me), Var(N_me)>>), EList(<<Var(N_me)>>)>>)>>
SameAliased == <<EObj(<<EFld(N_a, Var(N_me)), EFld(N_b, Var(N_me))>>), EObj(<<EFld(N_a, Var(N_ys)), EFld(N_b, Var(N_ys))>>),
                 EObj(<<EFld(N_a, Var(N_me)), EFld(N_b, If(Var(N_c), Var(N_m), Var(N_me)))>>),
                 EMap(<<EPair(S(<<97>>), Var(N_me)), EPair(S(<<98>>), Var(N_me))>>),
                 EMap(<<EPair(S(<<97>>), Var(N_ys)), EPair(S(<<98>>), Var(N_ys))>>)>>
SamePairs(pool, scalar) == Prod2(pool, pool, LAMBDA x, y : SameProg(x, y, scalar))
SameProgs == SamePairs(SameNums, TRUE) \o SamePairs(SameStrs, TRUE) \o SamePairs(SameBools, TRUE) \o SamePairs(SameTimes, TRUE)
               \o SamePairs(SameLists, FALSE) \o SamePairs(SameMaps, FALSE) \o SamePairs(SameObjs, FALSE) \o SamePairs(SameObjs3, FALSE)
               \o SamePairs(SameOpts, FALSE) \o SamePairs(SameNested, FALSE) \o SamePairs(SameAliased, FALSE)
               \o Map1(SameAliased, LAMBDA x : ECall(N_string, <<x>>))
               \o Map1(SameObjs3 \o SameObjs \o SameMaps \o SameNested, LAMBDA x : ECall(N_string, <<x>>))
               \o Map1(SameObjs3 \o SameObjs \o SameMaps \o SameNested, LAMBDA x : L1(x))

(* ------------------------------------------------------------------ C19: debug evaluation (built-ins only, env E0) *)
DbgProgs0 == <<
    Gt(Add(EMem(Var(N_ob), N_a), ESub(Var(N_xs), EInt(1))), ECall(N_len, <<Var(N_s)>>)),
    If(Var(N_b), Var(N_n), ESub(Var(N_xs), EInt(99))), If(Var(N_c), ESub(Var(N_xs), EInt(99)), Var(N_p)),
    ECall(N_andand, <<Var(N_c), Gt(ESub(Var(N_xs), EInt(99)), EInt(0))>>), ECall(N_oror, <<Var(N_b), Gt(ESub(Var(N_xs), EInt(99)), EInt(0))>>),
    Add(ESub(Var(N_m), S(<<97>>)), Var(N_n)), ECall(N_get, <<Var(N_xs), EInt(5), EInt(0)>>),
    Add(Var(N_eacute), Mul(ECall(N_len, <<S(<<233, 26195>>)>>), Var(N_n))), Add(S(<<233, 26195>>), Var(N_u)),
    Add(ECall(N_string, <<Var(N_m)>>), Var(N_s)), Add(EMem(ESub(Var(N_os), EInt(1)), N_b), S(<<122>>)),
    ESub(EList(<<Var(N_n), Var(N_p)>>), EInt(0)), EMem(EObj(<<EFld(N_a, Var(N_n))>>), N_a),
    Add(ESub(Var(N_xs), EInt(99)), Var(N_n)), ECall(N_percent, <<Var(N_n), Var(N_z)>>), ESub(Var(N_m), S(<<122, 122>>)),
    Add(Var(N_n), ESub(Var(N_xs), EInt(99))), ECall(N_match, <<S(<<40>>), Var(N_s)>>),
    If(Gt(ECall(N_len, <<Var(N_xs)>>), EInt(2)), If(Var(N_c), EInt(1), EMem(Var(N_oba), N_a)), Neg(Var(N_n))),
    ECall(N_eqeq, <<ECall(N_union, <<Var(N_xs), EList(<<Var(N_n), EInt(9)>>)>>), Var(N_xs)>>),
    ECall(N_get, <<Var(N_mx), Var(N_n)>>), ECall(N_get, <<ESub(Var(N_lo), EInt(0)), EInt(0)>>),
    Neg(Neg(Var(N_n))), Not(Not(Var(N_b))), Add(Add(Add(Var(N_n), Var(N_n)), Var(N_n)), Var(N_n)),
    Gt(ECall(N_minus, <<Var(N_d), Var(N_tm)>>), EInt(0)), ECall(N_isset, <<Var(N_m), Var(N_s)>>),
    EMap(<<EPair(Var(N_s), Var(N_n)), EPair(Add(Var(N_s), S(<<50>>)), ECall(N_len, <<Var(N_xs)>>))>>),
    ESub(Var(N_m), ESub(Var(N_ss), EInt(0))), Add(ESub(Var(N_m), ESub(Var(N_ss), EInt(1))), Var(N_n)),
    ESub(ESub(EList(<<Var(N_m)>>), EInt(5)), ESub(Var(N_ss), EInt(9))), ESub(Var(N_mm), Var(N_p)), ESub(Var(N_xs), ESub(Var(N_xs), EInt(0))),
    Var(N_n), EInt(1), S(<<97>>), Add(EInt(1), EInt(2)), ECall(N_len, <<Var(N_u)>>)>>
DbgProgs == Map1(DbgProgs0, LAMBDA e : InEnvId(e, "E0"))
              \* ... and, through closure.DebugCompile on an engine with user functions, terms evaluated several times / never
              \o <<ECall(N_twice, <<T(1, Var(N_n))>>), ECall(N_never, <<T(1, Var(N_n))>>), ECall(N_twice, <<Add(Var(N_n), Var(N_p))>>),
                   ECall(N_lif, <<T(1, Var(N_b)), T(2, Var(N_n)), ESub(Var(N_xs), EInt(99))>>),
                   ECall(N_second, <<ESub(Var(N_xs), EInt(99)), Add(Var(N_n), EInt(1))>>),
                   EDyn(ESub(Var(N_fs), EInt(0)), <<Var(N_n)>>), ECall(N_pick, <<Var(N_ob), Var(N_oba)>>)>>

\* The layout universe: every combination of recorded terms of different value widths (ASCII and non-ASCII text, member
\* chains, subscripts, calls) in three shapes, each rendered in several source styles (style: bit 0 ?:, bit 1 method
\* sugar, bit 2 wide operators, bit 3 tight operators -- the harness renders, the specification parses what was rendered).
DbgNumT == <<Var(N_n), Var(N_eacute), EMem(Var(N_ob), N_a), ESub(Var(N_xs), EInt(1)), ECall(N_len, <<Var(N_u)>>),
             EMem(EMem(EObj(<<EFld(N_a, Var(N_ob))>>), N_a), N_a), Mul(Var(N_n), EInt(1000))>>
DbgStrT == <<Var(N_s), Var(N_u), EMem(Var(N_ob), N_b), ESub(Var(N_ss), EInt(0)), Add(Var(N_u), Var(N_u)),
             EMem(EMem(EMem(EObj(<<EFld(N_b, EObj(<<EFld(N_a, Var(N_oba))>>))>>), N_b), N_a), N_b)>>
DbgStyles(size) == IF size >= 2 THEN <<0, 2, 4, 8, 6, 10, 1, 5, 9, 3>> ELSE <<0, 4, 10, 1, 5, 9>>
DbgProgs2(size) ==
  LET base == Prod3(DbgNumT, DbgNumT, DbgNumT, LAMBDA a, b, c : Gt(Add(a, b), c))
                \o Prod3(DbgStrT, DbgStrT, DbgNumT, LAMBDA a, b, c : Gt(ECall(N_len, <<Add(a, b)>>), c))
                \o Prod2(DbgStrT, DbgStrT, LAMBDA a, b : ECall(N_eqeq, <<a, b>>))
                \o Prod3(<<Var(N_b), Var(N_c), Gt(Var(N_n), EInt(2))>>, DbgStrT, DbgStrT, LAMBDA c, a, b : If(c, a, b))
      sty == DbgStyles(size)
      \* quick: one style per program, rotating; thorough: every style
      pick == IF size >= 2 THEN Concat([i \in 1..Len(base) |-> [k \in 1..Len(sty) |-> [e |-> base[i], envid |-> "E0", style |-> sty[k]]]])
              ELSE [i \in 1..Len(base) |-> [e |-> base[i], envid |-> "E0", style |-> sty[(i % Len(sty)) + 1]]]
  IN pick

(* ------------------------------------------------------------------ C14: programs run concurrently (env E1) *)
\* monomorphic and polymorphic calls, lazy functions, literals; every program reads n / s / xs, which differ per goroutine
ConcProgs == <<
    Add(ECall(N_len, <<Var(N_xs)>>), Var(N_n)),
    Add(T(1, Var(N_n)), T(2, Mul(Var(N_n), Var(N_n)))),
    ECall(N_lif, <<Gt(Var(N_n), EInt(2)), Add(Var(N_s), S(<<97>>)), Add(S(<<98>>), Var(N_s))>>),
    ESub(ECall(N_id, <<Var(N_xs)>>), EInt(0)),
    EMem(ECall(N_pick, <<EObj(<<EFld(N_a, Var(N_n)), EFld(N_b, Var(N_s))>>), EObj(<<EFld(N_b, Var(N_s)), EFld(N_a, EInt(7))>>)>>), N_a),
    ECall(N_union, <<Var(N_xs), EList(<<Var(N_n), EInt(9)>>)>>),
    EMap(<<EPair(Var(N_s), Var(N_n)), EPair(Add(Var(N_s), S(<<50>>)), ECall(N_len, <<Var(N_xs)>>))>>),
    Add(ECall(N_string, <<EList(<<Var(N_n), Var(N_n)>>)>>), Var(N_s)),
    ECall(N_twice, <<Add(Var(N_n), EInt(1))>>),
    Add(Add(Var(N_n), ESub(Var(N_xs), EInt(2))), Mul(Var(N_n), EInt(10))),
    ECall(N_get, <<Var(N_xs), Var(N_n), Neg(EInt(1))>>),
    If(Gt(ECall(N_len, <<Var(N_s)>>), EInt(1)), ESub(Var(N_xs), EInt(0)), Var(N_n)),
    ECall(N_f, <<Var(N_xs), Var(N_xs)>>),
    Gt(ECall(N_minus, <<ECall(N_strtotime, <<S(<<50,48,50,49,45,48,51,45,48,52,32,48,53,58,48,54,58,48,55>>)>>), Var(N_tm)>>), Var(N_n)),
    ECall(N_len, <<ECall(N_string, <<ECall(N_strtotime, <<S(<<50,48,50,49,45,48,51,45,48,52,32,48,53,58,48,54,58,48,55,32,69,117,114,111,112,101,47,80,97,114,105,115>>)>>)>>)>>),
    ESub(Var(N_xs), Var(N_n)), Add(Var(N_n), Var(N_s))>>
\* goroutine g's own values of n, s, xs
ConcOv(g) == <<BindV(N_n, VNum(NInt(g))), BindV(N_s, VStr(<<115, 48 + (g % 10)>>)),
               BindV(N_xs, IList(TList(TNum), <<VNum(NInt(g)), VNum(NInt(g + 1)), VNum(NInt(10 * g))>>))>>

\* size families around the evaluation stack's initial capacity (42) and growth step: whole composite values are returned
FNm(i) == <<102, 48 + (i \div 10), 48 + (i % 10)>>
RECURSIVE RAdd(_)
RAdd(k) == IF k = 0 THEN Var(N_n) ELSE Add(EInt(1), RAdd(k - 1))
SizeProgs ==
  Concat(Map1(<<41, 42, 43, 44, 85, 100, 543>>, LAMBDA n :
     <<EList([i \in 1..n |-> EInt(i % 7)]), ESub(EList([i \in 1..n |-> EInt(i % 7)]), EInt(0)),
       ECall(N_len, <<EList([i \in 1..n |-> IF i = 1 THEN Var(N_s) ELSE S(<<97>>)])>>),
       ESub(EList([i \in 1..n |-> IF i = n THEN T(1, Var(N_n)) ELSE EInt(i % 5)]), EInt(n - 1))>>))
    \o Concat(Map1(<<21, 22, 23, 45>>, LAMBDA n :
     <<EMap([i \in 1..n |-> EPair(S(FNm(i)), EInt(i))]), ESub(EMap([i \in 1..n |-> EPair(S(FNm(i)), EInt(i))]), S(FNm(1)))>>))
    \o Concat(Map1(<<42, 43, 44, 60>>, LAMBDA n :
     <<EObj([i \in 1..n |-> EFld(FNm(i), EInt(i))]), EMem(EObj([i \in 1..n |-> EFld(FNm(i), EInt(i))]), FNm(1)),
       EMem(EObj([i \in 1..n |-> EFld(FNm(i), EInt(i))]), FNm(n))>>))
    \o Map1(<<40, 41, 42, 43, 44, 90>>, LAMBDA k : RAdd(k))
    \o Map1(<<41, 43, 90>>, LAMBDA k : EList(<<RAdd(k), RAdd(k)>>))

\* conditionals whose jump targets lie at and just beyond the 16-bit operand range (3 bytes per list element)
BcBigProgs(size) ==
  IF size >= 2 THEN <<ECall(N_len, <<If(Var(N_b), BigList(21860), BigList(2))>>), ECall(N_len, <<If(Var(N_c), BigList(21860), BigList(2))>>),
                      AndE(Gt(ECall(N_len, <<BigList(21860)>>), EInt(0)), Var(N_b)),
                      ECall(N_len, <<If(Var(N_b), BigList(21700), BigList(2))>>), ECall(N_len, <<If(Var(N_c), BigList(2), BigList(21860))>>)>>
  ELSE <<ECall(N_len, <<If(Var(N_b), BigList(21860), BigList(2))>>), ECall(N_len, <<If(Var(N_c), BigList(2), BigList(21860))>>),
         ECall(N_len, <<If(Var(N_b), BigList(6000), BigList(2))>>)>>

(* ------------------------------------------------------------------ C05: registration orders *)
GArgs == <<Var(N_n), Var(N_s), Var(N_xs), Var(N_ss), Var(N_ys), EList(<<>>), EList(<<EInt(1)>>), Var(N_ob), Var(N_m), Var(N_mx),
           EInt(1), S(<<97>>), EList(<<Var(N_xs)>>)>>
OverProgs == Concat(Map1(<<"E1a", "E1b", "E1c", "E1d">>, LAMBDA id :
                 Map1(GArgs, LAMBDA a : InEnvId(ECall(N_g, <<a>>), id))
                   \o Map1(GArgs, LAMBDA a : InEnvId(Add(ECall(N_g, <<a>>), EInt(10)), id))
                   \o Map1(GArgs, LAMBDA a : InEnvId(Add(ECall(N_g, <<a>>), S(<<33>>)), id))
                   \o <<InEnvId(ECall(N_g, <<>>), id), InEnvId(ECall(N_g, <<Var(N_n), Var(N_n)>>), id),
                        InEnvId(ECall(N_len, <<Var(N_xs)>>), id), InEnvId(ECall(N_get, <<Var(N_xs), EInt(0), EInt(9)>>), id)>>))

(* ------------------------------------------------------------------ C16 *)
Opts == <<Var(N_mx), Var(N_mj), Var(N_ms)>>
Good == <<Var(N_n), Var(N_s), Var(N_b), Var(N_tm), Var(N_xs), Var(N_m), Var(N_ob), EInt(1), S(<<97>>)>>
OptProgs ==
  Concat(Map1(Names1, LAMBDA f : Calls1f(f, Opts)))
    \o Concat(Map1(Names2, LAMBDA f : Calls2f(f, Opts, Good) \o Calls2f(f, Good, Opts) \o Calls2f(f, Opts, Opts)))
    \o Concat(Map1(Names3, LAMBDA f : Calls3f(f, Opts, Good, Good) \o Calls3f(f, Good, Opts, Good) \o Calls3f(f, Good, Good, Opts)))
    \o Prod2(Opts, Good, LAMBDA o, g : ESub(o, g)) \o Prod2(Good, Opts, LAMBDA g, o : ESub(g, o))
    \o Prod2(Opts, FieldPool, LAMBDA o, n : EMem(o, n))
    \o Prod2(Opts, Good, LAMBDA o, g : EList(<<o, g>>)) \o Prod2(Opts, Good, LAMBDA o, g : EList(<<g, o>>))
    \o Prod2(Opts, Opts, LAMBDA o, g : EList(<<g, o>>))
    \o Prod2(Opts, Good, LAMBDA o, g : EMap(<<EPair(o, g)>>)) \o Prod2(Opts, Good, LAMBDA o, g : EMap(<<EPair(g, o)>>))
    \o Map1(Opts, LAMBDA o : Add(EMem(EObj(<<EFld(N_a, o)>>), N_a), EInt(1)))
    \o Map1(Opts, LAMBDA o : Add(ECall(N_get, <<EMem(EObj(<<EFld(N_a, o)>>), N_a), EInt(5)>>), EInt(1)))
    \o Map1(Opts, LAMBDA o : ECall(N_get, <<ESub(EList(<<o, Var(N_mx)>>), EInt(1)), EInt(5)>>))
    \o Map1(Opts, LAMBDA o : ECall(N_get, <<ECall(N_get, <<EList(<<o>>), EInt(3), Var(N_mj)>>), EInt(5)>>))
    \o Prod2(Opts, Opts, LAMBDA o, g : ECall(N_get, <<ESub(EList(<<o, g>>), EInt(1)), EInt(0)>>))
    \o Prod2(Opts, Opts, LAMBDA o, g : ECall(N_get, <<ESub(EList(<<o, g>>), EInt(1)), S(<<100>>)>>))
    \o Prod2(Opts, Opts, LAMBDA o, g : ECall(N_get, <<If(Var(N_c), o, g), EInt(0)>>))
    \o Prod2(Opts, Opts, LAMBDA o, g : ECall(N_get, <<ECall(N_pick, <<o, g>>), EInt(0)>>))
    \o Prod2(Opts, Opts, LAMBDA o, g : ECall(N_union, <<EList(<<o>>), EList(<<g>>)>>))
    \o Prod2(Opts, Opts, LAMBDA o, g : ESub(EMap(<<EPair(S(<<107>>), o), EPair(S(<<106>>), g)>>), S(<<106>>)))
    \* records whose optional field sits under another name at the same position: never interchangeable
    \o <<EList(<<Var(N_oq), Var(N_op)>>), Add(EMem(ESub(EList(<<Var(N_oq), Var(N_op)>>), EInt(1)), N_a), EInt(1)),
         Add(EMem(If(Var(N_c), Var(N_oq), Var(N_op)), N_a), EInt(1)), Add(EMem(If(Var(N_b), Var(N_op), Var(N_oq)), N_b), EInt(1)),
         ECall(N_abs, <<EMem(ECall(N_pick, <<Var(N_oq), Var(N_op)>>), N_a)>>), ECall(N_eqeq, <<Var(N_op), Var(N_oq)>>),
         ECall(N_union, <<EList(<<Var(N_op)>>), EList(<<Var(N_oq)>>)>>), EMap(<<EPair(S(<<107>>), Var(N_op)), EPair(S(<<106>>), Var(N_oq))>>),
         Add(EMem(Var(N_oq), N_a), EInt(1)), Add(EMem(Var(N_op), N_b), EInt(1)), Add(EMem(Var(N_op), N_a), EInt(1)),
         ECall(N_get, <<EMem(Var(N_op), N_a), EInt(5)>>), ECall(N_get, <<EMem(Var(N_oq), N_b), EInt(5)>>)>>
    \o Prod2(Opts, Opts, LAMBDA o, g : ECall(N_eqeq, <<EList(<<o>>), EList(<<g>>)>>))
    \o Prod2(Opts, Opts, LAMBDA o, g : ECall(N_ne, <<EList(<<o, g>>), EList(<<g, o>>)>>))
    \o Prod2(Opts, Opts, LAMBDA o, g : ECall(N_eqeq, <<EMap(<<EPair(S(<<107>>), o)>>), EMap(<<EPair(S(<<107>>), g)>>)>>))
    \o <<ECall(N_eqeq, <<Var(N_lo), EList(<<Var(N_mx), Var(N_mj)>>)>>), ECall(N_eqeq, <<EList(<<Var(N_mj), Var(N_mx)>>), Var(N_lo)>>),
         ECall(N_eqeq, <<Var(N_oo), Var(N_oo)>>)>>
    \* optionals nested in host data: absent payloads, present payloads
    \o <<ECall(N_get, <<ESub(Var(N_lo), EInt(0)), EInt(9)>>), ECall(N_get, <<ESub(Var(N_lo), EInt(1)), EInt(9)>>),
         ECall(N_get, <<EMem(Var(N_oo), N_a), EInt(9)>>), Add(ECall(N_get, <<EMem(Var(N_oo), N_a), EInt(9)>>), EInt(1)),
         Add(EMem(Var(N_oo), N_a), EInt(1)), Add(ESub(Var(N_lo), EInt(1)), EInt(1)),
         ECall(N_len, <<Var(N_lo)>>), ECall(N_string, <<Var(N_lo)>>), ECall(N_string, <<Var(N_oo)>>),
         ECall(N_eqeq, <<Var(N_lo), Var(N_lo)>>), ECall(N_union, <<Var(N_lo), Var(N_lo)>>),
         ECall(N_get, <<ECall(N_get, <<Var(N_lo), EInt(7), Var(N_mx)>>), EInt(3)>>), EMem(Var(N_oo), N_b)>>
=============================================================================
