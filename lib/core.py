"""Check pipeline pieces: generate (TLC) -> replay (Go) -> validate (TLC) -> triage."""
import hashlib, json, os, sys, time

import vf
import matchers

EVID = os.environ.get("VERIF_EVID", os.path.join(vf.ROOT, "evidence"))        # (VERIF_EVID / VERIF_REPLAYS: internal, see lib/seed_par.sh)
REPLAYS = os.environ.get("VERIF_REPLAYS", os.path.join(vf.ROOT, "replays"))


class Run:
    """state of one ./check invocation"""

    def __init__(self, prop, tier, seed):
        self.prop, self.tier, self.seed = prop, tier, seed
        self.t0 = time.time()
        self.states = 0          # TLC states (Mode A + generators + trace validation)
        self.transitions = 0
        self.cases = 0           # TLC-generated cases replayed
        self.records = 0         # observation records judged by TLC
        self.skipped = 0         # records TLC declined to judge (outside the exact domain)
        self.distinct = set()
        self.samples = []
        self.bounds = {}
        self.notes = []
        self.violations = []     # confirmed, not known
        self.known = {}          # finding id -> count
        self.assumptions = []
        self.model = []          # per TLC run: dict(module, cfg, mode, generated, distinct, wall)
        self.exhaustive = False
        self.harness = None
        self.harness_race = None
        self.extra = {}

    def hbin(self, race=False):
        if race:
            if not self.harness_race:
                self.harness_race = vf.build_harness(race=True)
            return self.harness_race
        if not self.harness:
            self.harness = vf.build_harness()
        return self.harness

    def envs_file(self):
        """the standard environments of the specification (YaeUniverse!StdEnvIn), emitted by TLC for the harness"""
        if not getattr(self, "_envs", None):
            self._envs = ""
            path, _ = self.generate("Gen_Eval", "Gen_Eval.cfg", mode="envs", size=1, name="stdenvs")
            self.cases -= 1
            self._envs = path
        return self._envs

    def pools_file(self):
        """the environment-object pools of the API histories (Gen_Api), emitted by TLC for the harness"""
        if not getattr(self, "_pools", None):
            path, _ = self.generate("Gen_Api", "Gen_Api.cfg", mode="pools", size=0, name="apipools")
            self.cases -= 1
            self._pools = path
        return self._pools

    # ------------------------------------------------------------ TLC generator (Mode A + B)
    def generate(self, module, cfg, mode="", size=0, name=None, timeout=10800, workers=None, idbase=0, heap="8g"):
        """runs a Gen_* root: invariants = Mode A on the specification, states = cases.
        returns path of the case file with ids assigned"""
        name = name or "%s_%s_%s" % (module, mode, size)
        raw = os.path.join(vf.scratch(), name + ".raw.ndjson")
        if os.path.exists(raw):
            os.remove(raw)
        r = vf.tlc(module, cfg, dict(P_OUT=raw, P_MODE=mode, P_SIZE=size), timeout=timeout, workers=workers, heap=heap)
        viol = vf.tlc_violation(r)
        if viol:
            raise vf.Infra("Mode A: specification invariant %s violated in %s (mode=%s size=%s) -- the model itself "
                           "breaks the law; fix the specification or name the deviation:\n%s"
                           % (viol, module, mode, size, vf.tail(r["out"], 40)))
        vf.tlc_ok(r, "%s %s" % (module, mode))
        self.states += r["distinct"]
        self.transitions += r["generated"]
        self.model.append(dict(module=module, mode=mode, size=size, generated=r["generated"], distinct=r["distinct"],
                               wall_s=round(r["wall"], 1)))
        out = os.path.join(vf.scratch(), name + ".cases.ndjson")
        n = 0
        with open(raw) as f, open(out, "w") as o:
            for line in f:
                line = line.strip()
                if not line:
                    continue
                n += 1
                # prepend the id without re-encoding the rest
                o.write('{"id":%d,%s\n' % (idbase + n, line[1:]))
        os.remove(raw)
        self.cases += n
        vf.log("generated %d cases from %s mode=%s size=%s (%d states, %.1fs)" % (n, module, mode, size, r["distinct"], r["wall"]))
        return out, n

    def model_check(self, module, cfg, mode="", size=0, timeout=1800, workers=None, heap="6g"):
        """pure Mode A run (no cases)"""
        r = vf.tlc(module, cfg, dict(P_MODE=mode, P_SIZE=size), timeout=timeout, workers=workers, heap=heap)
        viol = vf.tlc_violation(r)
        if viol:
            raise vf.Infra("Mode A: specification invariant %s violated in %s (mode=%s):\n%s"
                           % (viol, module, mode, vf.tail(r["out"], 40)))
        vf.tlc_ok(r, "%s %s" % (module, mode))
        self.states += r["distinct"]
        self.transitions += r["generated"]
        self.model.append(dict(module=module, mode=mode, size=size, generated=r["generated"], distinct=r["distinct"],
                               wall_s=round(r["wall"], 1)))
        vf.log("model-checked %s mode=%s size=%s: %d states (%.1fs)" % (module, mode, size, r["distinct"], r["wall"]))
        return r

    # ------------------------------------------------------------ Go harness
    def replay(self, family, cases=None, explore=0, mode="", name=None, race=False, budget=20000, idbase=0, jobs=None):
        name = name or "%s_%s" % (family, mode or "x")
        out = os.path.join(vf.scratch(), name + ".obs.ndjson")
        args = ["run", family, "-out", out, "-budget", str(budget)]
        if cases:
            args += ["-in", cases]
        if explore:
            args += ["-explore", str(explore), "-seed", str(self.seed), "-idbase", str(idbase)]
        if mode:
            args += ["-mode", mode]
        if jobs:
            args += ["-j", str(jobs)]
        t0 = time.time()
        henv = dict(VERIF_ENVS=self.envs_file())
        if family == "api":
            henv["VERIF_POOLS"] = self.pools_file()
        _, err = vf.harness(self.hbin(race), args, env=henv)
        n = vf.count_lines(out)
        vf.log("replayed %s: %d observations (%.1fs) %s" % (family, n, time.time() - t0, err.strip().splitlines()[-1] if err.strip() else ""))
        return out

    # ------------------------------------------------------------ TLC trace validation (Mode C)
    def validate(self, module, obs, cfg="Trace.cfg", chunks=None, timeout=7200, mode="", size=0, heap="5g",
                 shard=20000, parallel=4):
        """returns {id: verdict}; every record must have been judged.  Large observation
        files are split into shards of `shard` records, validated by `parallel` JVMs at a time."""
        n = vf.count_lines(obs)
        if n == 0:
            return {}
        shards = []
        if n <= shard:
            shards = [obs]
        else:
            k = 0
            out = None
            with open(obs) as f:
                for i, line in enumerate(f):
                    if i % shard == 0:
                        if out:
                            out.close()
                        k += 1
                        shards.append("%s.s%d" % (obs, k))
                        out = open(shards[-1], "w")
                    out.write(line)
            if out:
                out.close()
        verdicts = {}
        t0 = time.time()

        def one(path):
            m = vf.count_lines(path)
            ch = chunks or max(1, min(vf.NCPU * 2, m // 50 + 1))
            vfile = path + ".verdict.ndjson"
            if os.path.exists(vfile):
                os.remove(vfile)
            w = vf.NCPU if len(shards) == 1 else max(1, vf.NCPU // parallel)
            r = vf.tlc(module, cfg, dict(P_OBS=path, P_VERDICT=vfile, P_CHUNKS=ch, P_MODE=mode, P_SIZE=size),
                       timeout=timeout, heap=heap, workers=w)
            if r["rc"] != 0:
                raise vf.Infra("trace validation %s failed (rc=%d):\n%s" % (module, r["rc"], vf.tail(r["out"], 50)))
            return r, vf.read_ndjson(vfile), m

        import concurrent.futures
        with concurrent.futures.ThreadPoolExecutor(max_workers=parallel) as ex:
            for r, vs, m in ex.map(one, shards):
                self.states += r["distinct"]
                self.transitions += r["generated"]
                got = 0
                for v in vs:
                    if v["id"] not in verdicts:
                        got += 1
                    verdicts[v["id"]] = v
                if got != m:
                    raise vf.Infra("trace validation %s judged %d of %d records of a shard" % (module, got, m))
        for p in shards:
            if p != obs:
                os.remove(p)
        self.records += n
        vf.log("validated %d records with %s (%.1fs, %d shard(s))" % (n, module, time.time() - t0, len(shards)))
        return verdicts

    # ------------------------------------------------------------ triage
    def triage(self, family, module, obs, verdicts, relevant=None, confirm=True, cfg="Trace.cfg",
               key=None, nontrivial=None, race=False, vmode="", vsize=0):
        """relevant: set of conjunct names that belong to this property (None = all)."""
        recs = {}
        bad = []
        for rec in iter_ndjson(obs):
            v = verdicts[rec["id"]]
            if v.get("skip"):
                self.skipped += 1      # outside the exact domain: value conjuncts not judged, the rest are
            if "harness_panic" in rec.get("obs", {}):
                raise vf.Infra("harness defect on case %s: %s\n%s" % (rec["id"], rec["obs"]["harness_panic"], rec["obs"].get("stack", "")))
            if key is not None:
                k = key(rec)
                if nontrivial is None or nontrivial(rec):
                    self.distinct.add(k)
            if len(self.samples) < 4 and (nontrivial is None or nontrivial(rec)):
                self.samples.append(sample_of(rec))
            why = filter_why(v["why"], relevant)
            if why:
                rec["_why"] = sorted(why)
                bad.append(rec)
        self._selftest(module, obs, verdicts, relevant, cfg, nontrivial, vmode, vsize)
        if not bad:
            return
        vf.log("%d records rejected by TLC; re-executing them in fresh workers" % len(bad))
        confirmed = bad
        if confirm:
            confirmed = self._confirm(family, module, bad, relevant, cfg, race, vmode, vsize)
        for rec in confirmed:
            fid = matchers.match(self.prop, rec)
            if fid:
                self.known[fid] = self.known.get(fid, 0) + 1
                continue
            path = write_replay(self.prop, family, module, rec)
            self.violations.append((path, rec["_why"]))

    def _selftest(self, module, obs, verdicts, relevant, cfg, nontrivial, vmode, vsize):
        """binding self-test, once per trace module and run: the observations of accepted records are exchanged between
        records (each case keeps its id, gets another case's observation) and TLC must reject at least one of them --
        otherwise the trace specification does not constrain what was observed and nothing it accepts means anything"""
        done = self.extra.setdefault("binding_selftest", {})
        if module in done:
            return
        pool = []
        for rec in iter_ndjson(obs):
            v = verdicts[rec["id"]]
            if filter_why(v["why"], relevant) or v.get("skip") or "died" in rec.get("obs", {}):
                continue
            if nontrivial is not None and not nontrivial(rec):
                continue
            o = json.dumps(rec["obs"], sort_keys=True)
            if all(o != p[1] for p in pool):
                pool.append((rec, o))
            if len(pool) >= 12:
                break
        if len(pool) < 2:
            return
        swapped = []
        for i, (rec, _) in enumerate(pool):
            other = pool[(i + 1) % len(pool)][0]
            r = {k: v for k, v in rec.items() if k != "obs"}
            r["obs"] = dict(other["obs"])
            for inp in ("src", "srcs"):      # the rendered source is an input the harness echoes, not an observation
                if inp in rec["obs"]:
                    r["obs"][inp] = rec["obs"][inp]
            r["id"] = i + 1
            swapped.append(r)
        path = os.path.join(vf.scratch(), "selftest_%s.ndjson" % module)
        vf.write_ndjson(path, swapped)
        saved = (self.records, self.states, self.transitions)
        try:
            v2 = self.validate(module, path, cfg=cfg, mode=vmode, size=vsize, chunks=1)
        except vf.Infra as e:
            # an exchanged observation can be outside what the trace specification can even evaluate: that is a rejection
            done[module] = dict(exchanged=len(swapped), rejected="TLC could not evaluate the exchanged records")
            self.records, self.states, self.transitions = saved
            return
        self.records, self.states, self.transitions = saved
        rejected = sum(1 for r in swapped if v2[r["id"]]["why"])
        done[module] = dict(exchanged=len(swapped), rejected=rejected)
        vf.log("binding self-test %s: %d of %d exchanged observations rejected" % (module, rejected, len(swapped)))
        if rejected == 0:
            raise vf.Infra("binding self-test: TLC accepted %d records whose observations had been exchanged (%s constrains nothing)"
                           % (len(swapped), module))

    def _confirm(self, family, module, bad, relevant, cfg, race, vmode, vsize):
        cases = os.path.join(vf.scratch(), "confirm_%s_%d.ndjson" % (family, len(self.model) + len(bad)))
        stripped = []
        for rec in bad:
            c = {k: v for k, v in rec.items() if k not in ("obs", "_why")}
            stripped.append(c)
        vf.write_ndjson(cases, stripped)
        obs2 = self.replay(family, cases=cases, name="confirm_%s_%d" % (family, len(bad)), race=race, jobs=4)
        v2 = self.validate(module, obs2, cfg=cfg, mode=vmode, size=vsize)
        out = []
        flaky = 0
        for rec in iter_ndjson(obs2):
            why = filter_why(v2[rec["id"]]["why"], relevant)
            if why:
                rec["_why"] = sorted(why)
                out.append(rec)
            else:
                flaky += 1
        if flaky:
            self.notes.append("%d rejected records were not reproduced on re-execution (not counted as violations)" % flaky)
            self.extra["unreproduced"] = self.extra.get("unreproduced", 0) + flaky
        return out


def filter_why(why, relevant):
    """relevant: None (all conjuncts), a set of names, or a function why -> subset"""
    why = set(why)
    if relevant is None:
        return why
    if callable(relevant):
        return set(relevant(why))
    return why & set(relevant)


def iter_ndjson(path):
    with open(path) as f:
        for line in f:
            line = line.strip()
            if line:
                yield json.loads(line)


def sample_of(rec):
    s = {k: v for k, v in rec.items() if k not in ("_why",)}
    txt = json.dumps(s)
    if len(txt) > 3000:
        s = {"id": rec.get("id"), "truncated": txt[:3000]}
    if "src" in rec:
        try:
            s["src_text"] = vf.text(rec["src"])
        except Exception:
            pass
    return s


def write_replay(prop, family, module, rec):
    d = os.path.join(REPLAYS, prop)
    os.makedirs(d, exist_ok=True)
    body = {k: v for k, v in rec.items() if k not in ("id", "_why", "obs")}
    h = hashlib.sha1(json.dumps(body, sort_keys=True).encode()).hexdigest()[:16]
    path = os.path.join(d, h + ".json")
    with open(path, "w") as f:
        json.dump(dict(property=prop, family=family, trace_module=module, why=rec.get("_why"), record=rec), f, indent=1)
    return path


def finish(run, level, rule, assumptions=None, exhaustive=False):
    """prints KNOWN-FINDING / VIOLATION lines, writes evidence, returns exit code"""
    os.makedirs(EVID, exist_ok=True)
    for fid, n in sorted(run.known.items()):
        f = matchers.FINDINGS[fid]
        print("KNOWN-FINDING: property=%s %s [%s, %d case(s) this run]" % (run.prop, f["what"], fid, n))
    seen = set()
    for path, why in run.violations:
        if path in seen:
            continue
        seen.add(path)
        print("VIOLATION property=%s replay=%s" % (run.prop, path))
        vf.log("  rejected conjuncts: %s" % ",".join(why))
    cov = dict(
        states=run.states, transitions=run.transitions,
        traces_validated_against_impl=run.records,
        evaluations=run.records + run.extra.get("evaluations_extra", 0),
        distinct_nontrivial=len(run.distinct),
        rule=rule, samples=run.samples[:4] or [{"note": "no sample recorded"}],
        exhaustive=exhaustive, tlc_generated_cases=run.cases, records_outside_exact_domain_not_judged=run.skipped,
        model_runs=run.model, bounds=run.bounds, known_findings_hit=run.known, notes=run.notes,
    )
    cov.update({k: v for k, v in run.extra.items() if k != "evaluations_extra"})
    ev = dict(property_id=run.prop, tier=run.tier, seed=run.seed, level=level, coverage=cov,
              assumptions=(assumptions or []) + run.assumptions, wall_s=round(time.time() - run.t0, 1),
              violations=len(seen))
    with open(os.path.join(EVID, run.prop + ".json"), "w") as f:
        json.dump(ev, f, indent=1)
    vf.log("%s %s: %d states, %d records judged (%d not judged), %d distinct non-trivial, %d violation(s), %d known finding kind(s), %.0fs"
           % (run.prop, run.tier, run.states, run.records, run.skipped, len(run.distinct), len(seen), len(run.known), time.time() - run.t0))
    return 1 if seen else 0
