#!/bin/bash
# usage: seed_par.sh <seed-dir-name> <property> [tier]
# Internal, for trying many seeded changes at once WITHOUT touching /repo: the change is applied to a scratch
# worktree of /repo HEAD and the check is pointed at it (VERIF_REPO); evidence and replay files go to scratch too.
# (The registered commands, and lib/seed_run.sh, always use /repo itself.)
set -u
ROOT=$(cd "$(dirname "$0")/.." && pwd)
S=$ROOT/seeded/$1; P=$2; T=${3:-quick}
W=/var/tmp/seedpar/$1
export GOFLAGS=-mod=mod GOPROXY=off GOSUMDB=off GOTOOLCHAIN=local
rm -rf $W; mkdir -p /var/tmp/seedpar; git -C /repo worktree prune
git -C /repo worktree add -q --detach $W/repo HEAD || exit 9
trap 'git -C /repo worktree remove --force $W/repo; rm -rf $W' EXIT
( cd $W/repo && git apply $S/patch.diff ) || { echo "$1: patch does not apply"; exit 8; }
mkdir -p $W/evid $W/replays
VERIF_REPO=$W/repo VERIF_EVID=$W/evid VERIF_REPLAYS=$W/replays $ROOT/check $P --tier $T > /var/tmp/seedpar.$1.$P.log 2>&1
rc=$?
echo "$1 vs $P ($T): exit $rc; $(grep -c '^VIOLATION' /var/tmp/seedpar.$1.$P.log) violation line(s); $(grep -c '^KNOWN-FINDING' /var/tmp/seedpar.$1.$P.log) known; $(grep -m1 'rejected conjuncts' /var/tmp/seedpar.$1.$P.log | sed 's/.*conjuncts: //' | cut -c1-120)"
exit $rc
