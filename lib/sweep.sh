#!/bin/bash
# usage: sweep.sh [tier] [ids...] -- runs the checks one after another on the current tree; one summary line each
T=${1:-quick}; shift
IDS=${@:-C01 C02 C03 C04 C05 C06 C07 C08 C09 C10 C11 C12 C13 C14 C15 C16 C17 C18 C19 C20}
for p in $IDS; do
  s=$(date +%s)
  /verif/check $p --tier $T > /var/tmp/sweep.$p.$T.log 2>&1
  rc=$?
  echo "$p $T exit=$rc $(( $(date +%s) - s ))s viol=$(grep -c '^VIOLATION' /var/tmp/sweep.$p.$T.log) known=$(grep -c '^KNOWN-FINDING' /var/tmp/sweep.$p.$T.log) | $(tail -1 /var/tmp/sweep.$p.$T.log | cut -c1-160)"
done
