"""Common plumbing for ./check: scratch dirs, harness build, TLC runs, verdict
triage (confirm -> known findings -> exit code) and evidence files."""
import atexit, hashlib, json, os, re, shutil, subprocess, sys, tempfile, time

ROOT = os.path.dirname(os.path.dirname(os.path.abspath(__file__)))
SPEC = os.path.join(ROOT, "spec")
REPO = os.environ.get("VERIF_REPO", "/repo")
JAR = "/opt/veriftools/tla/tla2tools.jar:/opt/veriftools/tla/CommunityModules-deps.jar"
NCPU = os.cpu_count() or 4

GOENV = dict(os.environ, GOFLAGS="-mod=mod", GOPROXY="off", GOSUMDB="off", GOTOOLCHAIN="local",
             TZ="UTC", CGO_ENABLED="1")


class Infra(Exception):
    """harness / TLC / resource failure: exit 2, never a verdict"""


_scratch = None


def scratch():
    global _scratch
    if _scratch is None:
        base = os.environ.get("VERIF_SCRATCH_BASE", "/var/tmp")
        os.makedirs(base, exist_ok=True)
        _scratch = tempfile.mkdtemp(prefix="yaeverif.", dir=base)
        if not os.environ.get("VERIF_KEEP"):
            atexit.register(lambda: shutil.rmtree(_scratch, ignore_errors=True))
    return _scratch


def sub(name):
    d = os.path.join(scratch(), name)
    os.makedirs(d, exist_ok=True)
    return d


def log(*a):
    print("[check]", *a, file=sys.stderr, flush=True)


# ----------------------------------------------------------------- harness
def build_harness(race=False):
    """builds /verif/harness against /repo's current working tree with -tags verif"""
    hdir = os.path.join(ROOT, "harness")
    if REPO != "/repo":
        # (internal use: seeded changes tried out on a scratch copy of the repository -- lib/seed_par.sh; the registered
        # commands never set VERIF_REPO and always build against /repo's working tree)
        alt = os.path.join(scratch(), "harness_src")
        shutil.copytree(hdir, alt, dirs_exist_ok=True)
        gm = open(os.path.join(alt, "go.mod")).read().replace("=> /repo", "=> " + REPO)
        open(os.path.join(alt, "go.mod"), "w").write(gm)
        hdir = alt
    shutil.copyfile(os.path.join(REPO, "go.sum"), os.path.join(hdir, "go.sum")) if os.path.exists(
        os.path.join(REPO, "go.sum")) else open(os.path.join(hdir, "go.sum"), "a").close()
    out = os.path.join(scratch(), "harness-race" if race else "harness")
    cmd = ["go", "build", "-tags", "verif", "-o", out]
    if race:
        cmd.append("-race")
    cmd.append("./cmd/harness")
    t0 = time.time()
    r = subprocess.run(cmd, cwd=hdir, env=GOENV, capture_output=True, text=True)
    if r.returncode != 0:
        raise Infra("harness build failed (does /repo still compile with -tags verif?):\n" + r.stdout + r.stderr)
    log("harness built in %.1fs%s" % (time.time() - t0, " (race)" if race else ""))
    return out


def harness(binpath, args, stdin_path=None, stdout_path=None, timeout=3600, env=None):
    e = dict(GOENV)
    if env:
        e.update(env)
    fin = open(stdin_path, "rb") if stdin_path else subprocess.DEVNULL
    fout = open(stdout_path, "wb") if stdout_path else subprocess.PIPE
    try:
        r = subprocess.run([binpath] + args, stdin=fin, stdout=fout, stderr=subprocess.PIPE, env=e, timeout=timeout)
    except subprocess.TimeoutExpired:
        raise Infra("harness timed out: %s" % " ".join(args))
    finally:
        if stdin_path:
            fin.close()
        if stdout_path:
            fout.close()
    if r.returncode != 0:
        raise Infra("harness %s failed rc=%d:\n%s" % (" ".join(args), r.returncode, r.stderr.decode(errors="replace")[-4000:]))
    return r.stdout if not stdout_path else None, r.stderr.decode(errors="replace")


# ----------------------------------------------------------------- TLC
_spec_copy = None


def spec_dir():
    """TLC litters its working directory: run it on a scratch copy of /verif/spec"""
    global _spec_copy
    if _spec_copy is None:
        _spec_copy = os.path.join(scratch(), "spec")
        shutil.copytree(SPEC, _spec_copy)
    return _spec_copy


_tlc_n = 0
_tlc_lock = __import__("threading").Lock()


def tlc(module, cfg, params=None, workers=None, timeout=1800, simulate=None, depth=None, seed=None,
        heap="6g", coverage=False, dfs=False, env=None):
    """runs TLC on spec/<module>.tla with cfg/<cfg> plus CONSTANTS from params
    (P_OUT, P_OBS, P_VERDICT, P_CHUNKS, P_MODE, P_SIZE); returns dict(rc, out, generated, distinct, depth, wall)"""
    global _tlc_n
    with _tlc_lock:
        _tlc_n += 1
        my_n = _tlc_n
        sd = spec_dir()
    md = sub("tlc%d" % my_n)
    P = dict(P_OUT="/dev/null", P_OBS="/dev/null", P_VERDICT="/dev/null", P_CHUNKS=1, P_MODE="", P_SIZE=0)
    P.update(params or {})
    base = open(os.path.join(sd, "cfg", cfg)).read()
    cfg = "run%d_%s" % (my_n, cfg)
    with open(os.path.join(sd, "cfg", cfg), "w") as f:
        f.write(base + "\nCONSTANTS\n" + "".join(
            "  %s = %s\n" % (k, json.dumps(v) if isinstance(v, str) else int(v)) for k, v in P.items()))
    cmd = ["java", "-Xss1g", "-Xmx" + heap, "-XX:+UseParallelGC", "-Djava.io.tmpdir=" + md]
    if dfs:
        cmd.append("-Dtlc2.tool.queue.IStateQueue=StateDeque")
    cmd += ["-cp", JAR, "tlc2.TLC", "-metadir", os.path.join(md, "md"), "-cleanup", "-nowarning",
            "-config", os.path.join("cfg", cfg), "-workers", str(workers or NCPU), "-deadlock"]
    if simulate:
        cmd += ["-simulate", simulate]
        if depth:
            cmd += ["-depth", str(depth)]
    if seed is not None:
        cmd += ["-seed", str(seed)]
    if coverage:
        cmd += ["-coverage", "1"]
    cmd.append(module)
    e = dict(os.environ)
    if env:
        e.update({k: str(v) for k, v in env.items()})
    t0 = time.time()
    try:
        r = subprocess.run(cmd, cwd=sd, env=e, capture_output=True, text=True, timeout=timeout)
    except subprocess.TimeoutExpired:
        subprocess.run(["pkill", "-f", md], capture_output=True)
        raise Infra("TLC timed out after %ds: %s %s" % (timeout, module, cfg))
    out = r.stdout + r.stderr
    res = dict(rc=r.returncode, out=out, wall=time.time() - t0, generated=0, distinct=0, depth=0)
    m = re.findall(r"(\d+) states generated, (\d+) distinct states found", out)
    if m:
        res["generated"], res["distinct"] = int(m[-1][0]), int(m[-1][1])
    m = re.findall(r"depth of the complete state graph search is (\d+)", out)
    if m:
        res["depth"] = int(m[-1])
    shutil.rmtree(md, ignore_errors=True)
    return res


def tlc_ok(res, what):
    """TLC finished without error (rc 0). Invariant violations are reported by the caller."""
    if res["rc"] != 0:
        raise Infra("TLC failed (%s) rc=%d:\n%s" % (what, res["rc"], tail(res["out"])))


def tail(s, n=60):
    return "\n".join(s.splitlines()[-n:])


def tlc_violation(res):
    """returns the name of a violated invariant / property, or None"""
    m = re.search(r"Invariant (\S+) is violated", res["out"])
    if m:
        return m.group(1)
    m = re.search(r"(Temporal properties were violated|Action property (\S+) is violated)", res["out"])
    if m:
        return m.group(0)
    return None


# ----------------------------------------------------------------- files
def read_ndjson(path):
    out = []
    if not os.path.exists(path):
        return out
    with open(path) as f:
        for line in f:
            line = line.strip()
            if line:
                out.append(json.loads(line))
    return out


def write_ndjson(path, recs):
    with open(path, "w") as f:
        for r in recs:
            f.write(json.dumps(r, separators=(",", ":"), ensure_ascii=True) + "\n")


def count_lines(path):
    if not os.path.exists(path):
        return 0
    with open(path, "rb") as f:
        return sum(1 for _ in f)


def cat(paths, out):
    with open(out, "wb") as o:
        for p in paths:
            if os.path.exists(p):
                with open(p, "rb") as f:
                    shutil.copyfileobj(f, o)


def text(cps):
    """code points -> str (for human-readable samples)"""
    try:
        return "".join(chr(c) for c in cps)
    except Exception:
        return repr(cps)
