package main

// family "desugar" (C10, structural half): parse with the real front end, then
// record the tree before desugaring, after, the original once more (must be
// untouched), the same tree desugared a second time, and the result desugared again.

import (
	"github.com/goghcrow/yae/parser"
	"github.com/goghcrow/yae/parser/ast"
	"github.com/goghcrow/yae/parser/lexer"
	"github.com/goghcrow/yae/parser/oper"
	"github.com/goghcrow/yae/trans"
)

func init() {
	families["desugar"] = &Family{Run: runDesugar}
}

func runDesugar(c J) J {
	ops := opsFromJ(arr(c["ops"]))
	src := str(c["src"])
	var tree ast.Expr
	cl, _ := guard(func() {
		toks := lexer.NewLexer(append([]oper.Operator{}, ops...)).Lex(src)
		tree = parser.NewParser(append([]oper.Operator{}, ops...)).Parse(toks)
	})
	if cl != "ok" {
		return J{"parsed": false}
	}
	obs := J{"parsed": true}
	cl, msg := guard(func() {
		obs["before"] = cstJ(tree)
		d := trans.Desugar(tree)
		obs["after"] = cstJ(d)
		obs["before2"] = cstJ(tree)
		d2 := trans.Desugar(tree)
		obs["after2"] = cstJ(d2)
		obs["twice"] = cstJ(trans.Desugar(d))
	})
	obs["class"] = cl
	obs["msg"] = msg
	return obs
}
