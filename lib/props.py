"""One function per property: which specification roots are model-checked, which
cases are generated / explored, which trace root judges them, which conjuncts of
the verdict belong to the property."""
import json, os

import vf, core, matchers
from core import Run, finish

PROPS = {}
REPLAY = {}      # prop -> (family, trace module, relevant conjuncts)


def prop(pid, family=None, module=None, relevant=None):
    def deco(fn):
        PROPS[pid] = fn
        if family:
            REPLAY[pid] = (family, module, relevant)
        return fn
    return deco


def replay(pid, path, seed):
    """re-runs one recorded case: harness in a fresh worker, TLC judges it"""
    data = json.load(open(path))
    family, module, relevant = data["family"], data["trace_module"], REPLAY.get(pid, (None, None, None))[2]
    run = Run(pid, "quick", seed)
    rec = {k: v for k, v in data["record"].items() if k not in ("obs", "_why")}
    rec["id"] = 1
    cases = os.path.join(vf.scratch(), "replay.ndjson")
    vf.write_ndjson(cases, [rec])
    obs = run.replay(family, cases=cases, name="replay", jobs=1)
    verdicts = run.validate(module, obs, chunks=1)
    why = set(verdicts[1]["why"])
    if relevant is not None:
        why &= set(relevant)
    o = vf.read_ndjson(obs)[0]
    o["_why"] = sorted(why)
    print(json.dumps(dict(observed=o["obs"], rejected_conjuncts=sorted(why)), indent=1)[:6000])
    if why:
        fid = matchers.match(pid, o)
        if fid:
            print("KNOWN-FINDING: property=%s %s [%s]" % (pid, matchers.FINDINGS[fid]["what"], fid))
            return 0
        print("VIOLATION property=%s replay=%s" % (pid, path))
        return 1
    print("replay accepted by the specification: no violation")
    return 0


# ---------------------------------------------------------------------------- C17
C17_REL = None   # every conjunct of Trace_Types belongs to C17


@prop("C17", "unify", "Trace_Types", C17_REL)
def c17(tier, seed):
    run = Run("C17", tier, seed)
    thorough = tier == "thorough"
    key = lambda r: json.dumps([r["x"], r["y"], r.get("shared", False)], sort_keys=True)
    nontriv = lambda r: r["x"]["k"] not in ("num", "str", "bool", "time") and r["y"]["k"] not in ("num", "str", "bool", "time")
    # Mode A + B: all ordered pairs of depth<=1 types; patterns x ground instances
    sets = [("pairs", 2 if thorough else 1), ("patterns", 1)]
    base = 0
    for mode, size in sets:
        cases, n = run.generate("Gen_Types", "Gen_Types.cfg", mode=mode, size=size, idbase=base)
        base += n
        obs = run.replay("unify", cases=cases, name="unify_" + mode)
        verdicts = run.validate("Trace_Types", obs)
        run.triage("unify", "Trace_Types", obs, verdicts, C17_REL, key=key, nontrivial=nontriv)
    # Mode C: seeded deeper pairs incl. shared sub-term pointers
    n = 200000 if thorough else 20000
    obs = run.replay("unify", explore=n, name="unify_explore", idbase=base)
    verdicts = run.validate("Trace_Types", obs)
    run.triage("unify", "Trace_Types", obs, verdicts, C17_REL, key=key, nontrivial=nontriv)
    run.bounds = dict(pairs="all ordered pairs of depth<=1 types over %d atoms" % (8 if thorough else 5),
                      patterns="all 2-tuples of depth<=1 patterns over {num,'a,'b} x all 2-tuples over 11 ground types",
                      explore="%d seeded pairs of depth<=3 (instances, mutated instances, shared variables, 1/4 with shared sub-term pointers)" % n)
    return finish(run, "model_checking",
                  "cases: TLC enumerates the type-pair universes (each state one pair, laws checked as invariants) "
                  "and the harness adds seeded deeper pairs; every pair is run through types.Equals / types.Unify and "
                  "TLC judges the observation. distinct = distinct (x, y, shared) triples; non-trivial = neither side a primitive",
                  assumptions=["TLC's evaluation of the TLA+ operators is trusted", "pairs beyond depth 3 are not sampled"],
                  exhaustive=False)
