---------------------------- MODULE YaeParser ----------------------------
(***************************************************************************)
(* The Pratt (top-down operator precedence) parser of yae, transcribed     *)
(* function for function from parser/{parser,factory,grammar}.go.  The     *)
(* parser state [i, eats] (token index, number of eat() calls -- including *)
(* those spent in abandoned list-or-map attempts) is threaded through, so  *)
(* that the amount of work is part of the result (C12).                    *)
(* Binding powers are integers in HALF units (oper.BP is a float).         *)
(* Trees carry pos = [idx, end, line, col] (the span the property asks     *)
(* for: first token's start to last token's end) and, where the code has   *)
(* one, dc = the debug column.                                             *)
(***************************************************************************)
EXTENDS YaeLexer

K_EOF == N_keof
EOFTok == [k |-> K_EOF, lex |-> N_keof, idx |-> -1, end |-> -1, line |-> -1, col |-> -1]

(* ---- the grammar tables (newGrammar): later registrations replace earlier ones ---- *)
LastIdx(s, P(_)) == LET M == {i \in 1..Len(s) : P(s[i])} IN IF M = {} THEN 0 ELSE Max(M)
PrefixOp(ops, k) == LET so == SortOps(ops) i == LastIdx(so, LAMBDA o : o.k = k /\ o.fix = "prefix") IN
                    IF i = 0 THEN [has |-> FALSE] ELSE [has |-> TRUE, bp |-> so[i].bp]
InfixOp(ops, k) ==  LET so == SortOps(ops) i == LastIdx(so, LAMBDA o : o.k = k /\ o.fix \in {"infixn", "infixl", "infixr", "postfix"}) IN
                    IF i = 0 THEN [has |-> FALSE] ELSE [has |-> TRUE, bp |-> so[i].bp, fix |-> so[i].fix]
LiteralKinds == {K_SYM, N_true, N_false, K_NUM, K_STR, K_TIME}
\* what a token kind does in prefix position
PrefixKind(ops, k) ==
  LET o == PrefixOp(ops, k) IN
  IF o.has THEN [f |-> "prefixop", bp |-> o.bp]
  ELSE IF k \in LiteralKinds THEN [f |-> "lit", bp |-> 0]
  ELSE IF k = N_lbr THEN [f |-> "listmap", bp |-> 0]
  ELSE IF k = N_lbrace THEN [f |-> "obj", bp |-> 0]
  ELSE IF k = N_lpar THEN [f |-> "group", bp |-> 0]
  ELSE [f |-> "none", bp |-> 0]
\* ... and in infix position; ? . ( [ are registered last and cannot be overridden
InfixKind(ops, k) ==
  IF k = N_question THEN [f |-> "question", bp |-> BP_COND]
  ELSE IF k = N_dot THEN [f |-> "dot", bp |-> BP_MEMBER]
  ELSE IF k = N_lpar THEN [f |-> "call", bp |-> BP_CALL]
  ELSE IF k = N_lbr THEN [f |-> "subscript", bp |-> BP_MEMBER]
  ELSE LET o == InfixOp(ops, k) IN
       IF o.has THEN [f |-> o.fix, bp |-> o.bp] ELSE [f |-> "none", bp |-> 0]

(* ---- literals: which lexemes the constructors in parser/ast accept ---- *)
CountCP(s, c) == Cardinality({i \in 1..Len(s) : s[i] = c})
\* strconv.ParseFloat / ParseInt on a NUM lexeme: "ok", "bad" (compile error), or "ood" (not modelled)
NumLexClass(lex) ==
  IF Len(lex) >= 2 /\ lex[1] = 48 /\ lex[2] \in {120, 98, 111} THEN
    (IF lex[2] = 120 THEN (IF Len(lex) - 2 <= 15 THEN "ok" ELSE "ood")
     ELSE IF lex[2] = 98 THEN (IF Len(lex) - 2 <= 62 THEN "ok" ELSE "ood")
     ELSE (IF Len(lex) - 2 <= 20 THEN "ok" ELSE "ood"))
  ELSE IF CountCP(lex, 46) > 1 \/ CountCP(lex, 101) + CountCP(lex, 69) > 1 THEN "bad"
  ELSE IF Len(lex) > 15 THEN "ood"
  ELSE "ok"
\* strconv.Unquote on a STR lexeme: the lexer admits \/ and raw newlines, Unquote does not
StrLexOk(lex) ==
  IF lex[1] = 96 THEN TRUE
  ELSE LET RECURSIVE Ok(_)
           Ok(i) == IF i >= Len(lex) THEN TRUE
                    ELSE IF lex[i] = 10 THEN FALSE
                    ELSE IF lex[i] = 92 THEN (IF lex[i + 1] = 47 THEN FALSE ELSE IF lex[i + 1] = 117 THEN Ok(i + 6) ELSE Ok(i + 2))
                    ELSE Ok(i + 1)
       IN Ok(2)

(* ---- parser state and results ---- *)
Peek(toks, st) == IF st.i > Len(toks) THEN EOFTok ELSE toks[st.i]
\* eat(): at the end of input it returns EOF without advancing, but it still counts
Eat(toks, st) == IF st.i > Len(toks) THEN [st EXCEPT !.eats = @ + 1] ELSE [st EXCEPT !.i = @ + 1, !.eats = @ + 1]
POk(n, st) == [ok |-> TRUE, node |-> n, st |-> st]
PErr(st, why) == [ok |-> FALSE, st |-> st, why |-> why]
\* pos.Span(from, to) as the property demands it: from's start, to's end
PosOf(x) == IF "pos" \in DOMAIN x THEN x.pos ELSE [idx |-> x.idx, end |-> x.end, line |-> x.line, col |-> x.col]
Span(from, to) == LET a == PosOf(from) b == PosOf(to) IN [idx |-> a.idx, end |-> b.end, line |-> a.line, col |-> a.col]
RangeOk(from, to) == PosOf(to).idx >= PosOf(from).idx          \* util.Assert(l2.Idx >= l1.Idx)
TokPos(t) == [idx |-> t.idx, end |-> t.end, line |-> t.line, col |-> t.col]

\* mustEat(k): eats unconditionally, then checks
MustEat(toks, st, k) == LET t == Peek(toks, st) IN
                        IF t.k = k THEN [ok |-> TRUE, tok |-> t, st |-> Eat(toks, st)] ELSE PErr(Eat(toks, st), "expect")
InfixNCheck(n) ==
  IF n.k = "bin" /\ n.fix = "N"
  THEN ~((n.l.k = "bin" /\ n.l.op = n.op) \/ (n.r.k = "bin" /\ n.r.op = n.op))
  ELSE TRUE
FixLetter(f) == CASE f = "infixl" -> "L" [] f = "infixr" -> "R" [] OTHER -> "N"

RECURSIVE Expr(_, _, _, _), ParseInfix(_, _, _, _, _), Nud(_, _, _, _, _), Led(_, _, _, _, _, _),
          ListElems(_, _, _, _, _), MapPairs(_, _, _, _, _), ListOrMap(_, _, _, _), MoreElems(_, _, _, _, _), MorePairs(_, _, _, _, _), ObjFields(_, _, _, _, _), CallArgs(_, _, _, _),
          FinishCall(_, _, _, _, _)

Expr(ops, toks, st, rbp) ==
  LET t == Peek(toks, st)
      st1 == Eat(toks, st)
      pk == PrefixKind(ops, t.k) IN
  IF pk.f = "none" THEN PErr(st1, "no-prefix")
  ELSE LET left == Nud(ops, toks, t, pk, st1) IN
       IF ~left.ok THEN left ELSE ParseInfix(ops, toks, left.node, left.st, rbp)

ParseInfix(ops, toks, left, st, rbp) ==
  LET t == Peek(toks, st)
      ik == InfixKind(ops, t.k) IN
  IF ik.bp > rbp
  THEN LET r == Led(ops, toks, t, ik, left, Eat(toks, st)) IN
       IF ~r.ok THEN r
       \* a non-associative operator may not take an application of itself as a direct operand:
       \* checked for every node as it is built (not only for the finished operand)
       ELSE IF ~InfixNCheck(r.node) THEN PErr(r.st, "non-assoc")
       ELSE ParseInfix(ops, toks, r.node, r.st, rbp)
  ELSE POk(left, st)

Nud(ops, toks, t, pk, st) ==
  CASE pk.f = "lit" ->
         (CASE t.k = K_SYM -> POk([k |-> "id", n |-> t.lex, pos |-> TokPos(t)], st)
            [] t.k = N_true -> POk([k |-> "bool", lex |-> t.lex, pos |-> TokPos(t)], st)
            [] t.k = N_false -> POk([k |-> "bool", lex |-> t.lex, pos |-> TokPos(t)], st)
            [] t.k = K_NUM -> LET c == NumLexClass(t.lex) IN
                              IF c = "ok" THEN POk([k |-> "num", lex |-> t.lex, pos |-> TokPos(t)], st)
                              ELSE IF c = "bad" THEN PErr(st, "bad-num") ELSE PErr(st, "ood")
            [] t.k = K_STR -> IF StrLexOk(t.lex) THEN POk([k |-> "str", lex |-> t.lex, pos |-> TokPos(t)], st) ELSE PErr(st, "bad-str")
            [] OTHER -> POk([k |-> "time", lex |-> t.lex, pos |-> TokPos(t)], st))
    [] pk.f = "prefixop" ->
         LET e == Expr(ops, toks, st, pk.bp) IN
         IF ~e.ok THEN e
         ELSE POk([k |-> "un", op |-> t.lex, prefix |-> TRUE, e |-> e.node, oppos |-> TokPos(t), pos |-> Span(t, e.node)], e.st)
    [] pk.f = "group" ->
         LET e == Expr(ops, toks, st, 0) IN
         IF ~e.ok THEN e ELSE
         LET m == MustEat(toks, e.st, N_rpar) IN
         IF ~m.ok THEN m ELSE POk([k |-> "group", e |-> e.node, pos |-> Span(t, m.tok)], m.st)
    [] pk.f = "listmap" ->
         IF Peek(toks, st).k = N_colon
         THEN LET m == MustEat(toks, Eat(toks, st), N_rbr) IN
              IF ~m.ok THEN m ELSE POk([k |-> "map", ps |-> <<>>, pos |-> Span(t, m.tok)], m.st)
         ELSE \* any(parseListOrMap): one attempt; on failure the index is rewound (the work done is not)
              \* and the error is reported as "expect `list or map`"
              LET l == ListOrMap(ops, toks, t, st) IN
              IF l.ok THEN l ELSE PErr([i |-> st.i, eats |-> l.st.eats], IF l.why = "ood" THEN "ood" ELSE "list-or-map")
    [] pk.f = "obj" -> ObjFields(ops, toks, t, st, <<>>)
    [] OTHER -> PErr(st, "no-prefix")

\* whether the literal is a list or a map is decided by the token after its first element
ListOrMap(ops, toks, open, st) ==
  IF Peek(toks, st).k = N_rbr
  THEN LET m == MustEat(toks, st, N_rbr) IN POk([k |-> "list", els |-> <<>>, pos |-> Span(open, m.tok)], m.st)
  ELSE LET e == Expr(ops, toks, st, 0) IN
       IF ~e.ok THEN e
       ELSE IF Peek(toks, e.st).k = N_colon THEN
              LET v == Expr(ops, toks, Eat(toks, e.st), 0) IN
              IF ~v.ok THEN v ELSE MorePairs(ops, toks, open, v.st, <<[key |-> e.node, val |-> v.node]>>)
       ELSE MoreElems(ops, toks, open, e.st, <<e.node>>)
\* after an element: "," (then "]" or another element) or "]"
MoreElems(ops, toks, open, st, acc) ==
  IF Peek(toks, st).k = N_comma THEN
    LET st1 == Eat(toks, st) IN
    IF Peek(toks, st1).k = N_rbr
    THEN LET m == MustEat(toks, st1, N_rbr) IN POk([k |-> "list", els |-> acc, pos |-> Span(open, m.tok)], m.st)
    ELSE LET e == Expr(ops, toks, st1, 0) IN IF ~e.ok THEN e ELSE MoreElems(ops, toks, open, e.st, Append(acc, e.node))
  ELSE LET m == MustEat(toks, st, N_rbr) IN
       IF ~m.ok THEN m ELSE POk([k |-> "list", els |-> acc, pos |-> Span(open, m.tok)], m.st)
MorePairs(ops, toks, open, st, acc) ==
  IF Peek(toks, st).k = N_comma THEN
    LET st1 == Eat(toks, st) IN
    IF Peek(toks, st1).k = N_rbr
    THEN LET m == MustEat(toks, st1, N_rbr) IN POk([k |-> "map", ps |-> acc, pos |-> Span(open, m.tok)], m.st)
    ELSE LET kx == Expr(ops, toks, st1, 0) IN
         IF ~kx.ok THEN kx ELSE
         LET c == MustEat(toks, kx.st, N_colon) IN
         IF ~c.ok THEN c ELSE
         LET v == Expr(ops, toks, c.st, 0) IN
         IF ~v.ok THEN v ELSE MorePairs(ops, toks, open, v.st, Append(acc, [key |-> kx.node, val |-> v.node]))
  ELSE LET m == MustEat(toks, st, N_rbr) IN
       IF ~m.ok THEN m ELSE POk([k |-> "map", ps |-> acc, pos |-> Span(open, m.tok)], m.st)

ListElems(ops, toks, open, st, acc) ==
  IF Peek(toks, st).k = N_rbr
  THEN LET m == MustEat(toks, st, N_rbr) IN POk([k |-> "list", els |-> acc, pos |-> Span(open, m.tok)], m.st)
  ELSE LET e == Expr(ops, toks, st, 0) IN
       IF ~e.ok THEN e
       ELSE IF Peek(toks, e.st).k = N_comma THEN ListElems(ops, toks, open, Eat(toks, e.st), Append(acc, e.node))
       ELSE LET m == MustEat(toks, e.st, N_rbr) IN
            IF ~m.ok THEN m ELSE POk([k |-> "list", els |-> Append(acc, e.node), pos |-> Span(open, m.tok)], m.st)

MapPairs(ops, toks, open, st, acc) ==
  IF Peek(toks, st).k = N_rbr
  THEN LET m == MustEat(toks, st, N_rbr) IN POk([k |-> "map", ps |-> acc, pos |-> Span(open, m.tok)], m.st)
  ELSE LET kx == Expr(ops, toks, st, 0) IN
       IF ~kx.ok THEN kx ELSE
       LET c == MustEat(toks, kx.st, N_colon) IN
       IF ~c.ok THEN c ELSE
       LET v == Expr(ops, toks, c.st, 0) IN
       IF ~v.ok THEN v ELSE
       LET acc2 == Append(acc, [key |-> kx.node, val |-> v.node]) IN
       IF Peek(toks, v.st).k = N_comma THEN MapPairs(ops, toks, open, Eat(toks, v.st), acc2)
       ELSE LET m == MustEat(toks, v.st, N_rbr) IN
            IF ~m.ok THEN m ELSE POk([k |-> "map", ps |-> acc2, pos |-> Span(open, m.tok)], m.st)

ObjFields(ops, toks, open, st, acc) ==
  IF Peek(toks, st).k = N_rbrace
  THEN LET m == MustEat(toks, st, N_rbrace) IN POk([k |-> "obj", fs |-> acc, pos |-> Span(open, m.tok)], m.st)
  ELSE LET n == MustEat(toks, st, K_SYM) IN
       IF ~n.ok THEN n ELSE
       LET c == MustEat(toks, n.st, N_colon) IN
       IF ~c.ok THEN c ELSE
       LET v == Expr(ops, toks, c.st, 0) IN
       IF ~v.ok THEN v ELSE
       LET acc2 == Append(acc, [n |-> n.tok.lex, v |-> v.node]) IN
       IF Peek(toks, v.st).k = N_comma THEN ObjFields(ops, toks, open, Eat(toks, v.st), acc2)
       ELSE LET m == MustEat(toks, v.st, N_rbrace) IN
            IF ~m.ok THEN m ELSE POk([k |-> "obj", fs |-> acc2, pos |-> Span(open, m.tok)], m.st)

\* arguments after "(": at least one expression, separated by commas, no trailing comma
CallArgs(ops, toks, st, acc) ==
  LET a == Expr(ops, toks, st, 0) IN
  IF ~a.ok THEN a
  ELSE IF Peek(toks, a.st).k = N_comma THEN CallArgs(ops, toks, Eat(toks, a.st), Append(acc, a.node))
  ELSE LET m == MustEat(toks, a.st, N_rpar) IN
       IF ~m.ok THEN m ELSE [ok |-> TRUE, args |-> Append(acc, a.node), rp |-> m.tok, st |-> m.st]
\* parseCall(callee, "(" token) with the "(" already eaten
FinishCall(ops, toks, callee, lp, st) ==
  IF Peek(toks, st).k = N_rpar
  THEN LET m == MustEat(toks, st, N_rpar) IN
       POk([k |-> "call", f |-> callee, args |-> <<>>, dc |-> lp.col, pos |-> Span(callee, m.tok)], m.st)
  ELSE LET c == CallArgs(ops, toks, st, <<>>) IN
       IF ~c.ok THEN c ELSE POk([k |-> "call", f |-> callee, args |-> c.args, dc |-> lp.col, pos |-> Span(callee, c.rp)], c.st)

Led(ops, toks, t, ik, left, st) ==
  CASE ik.f \in {"infixl", "infixr", "infixn"} ->
         \* a right-associative operator takes, on its right, everything that binds at least as
         \* tightly as itself: "just below bp" (one half unit here; the code's BP is a float)
         LET r == Expr(ops, toks, st, IF ik.f = "infixr" THEN ik.bp - 1 ELSE ik.bp) IN
         IF ~r.ok THEN r
         ELSE POk([k |-> "bin", op |-> t.lex, fix |-> FixLetter(ik.f), l |-> left, r |-> r.node, oppos |-> TokPos(t),
                   pos |-> Span(left, r.node)], r.st)
    [] ik.f = "postfix" -> POk([k |-> "un", op |-> t.lex, prefix |-> FALSE, e |-> left, oppos |-> TokPos(t), pos |-> Span(left, t)], st)
    [] ik.f = "question" ->
         LET m == Expr(ops, toks, st, 0) IN
         IF ~m.ok THEN m ELSE
         LET c == MustEat(toks, m.st, N_colon) IN
         IF ~c.ok THEN c ELSE
         LET r == Expr(ops, toks, c.st, ik.bp - 1) IN
         IF ~r.ok THEN r
         ELSE POk([k |-> "tern", op |-> t.lex, l |-> left, m |-> m.node, r |-> r.node, oppos |-> TokPos(t), pos |-> Span(left, r.node)], r.st)
    [] ik.f = "call" -> FinishCall(ops, toks, left, t, st)
    [] ik.f = "dot" ->
         \* the field is whatever token comes next (the code does not restrict it)
         LET name == Peek(toks, st)
             st1 == Eat(toks, st) IN
         IF ~RangeOk(left, name) THEN PErr(st1, "expect-right-pos")
         ELSE LET mem == [k |-> "mem", x |-> left, n |-> name.lex, npos |-> TokPos(name), dc |-> t.col, pos |-> Span(left, name)] IN
              IF Peek(toks, st1).k = N_lpar THEN FinishCall(ops, toks, mem, Peek(toks, st1), Eat(toks, st1)) ELSE POk(mem, st1)
    [] ik.f = "subscript" ->
         LET e == Expr(ops, toks, st, 0) IN
         IF ~e.ok THEN e ELSE
         LET m == MustEat(toks, e.st, N_rbr) IN
         IF ~m.ok THEN m ELSE POk([k |-> "sub", x |-> left, i |-> e.node, dc |-> t.col, pos |-> Span(left, m.tok)], m.st)
    [] OTHER -> PErr(st, "no-infix")

\* parser.NewParser(ops).Parse(toks)
Parse(ops, toks) ==
  LET r == Expr(ops, toks, [i |-> 1, eats |-> 0], 0) IN
  IF ~r.ok THEN r
  ELSE LET m == MustEat(toks, r.st, K_EOF) IN
       IF ~m.ok THEN PErr(m.st, "trailing") ELSE POk(r.node, m.st)

(***************************************************************************)
(* The declarative side of C08: rendering a tree back to tokens with only  *)
(* the parentheses the declarations require, and structural facts.         *)
(***************************************************************************)
RECURSIVE StripPos(_)
\* the tree without positions and without group nodes (what redundant parentheses may not change)
StripPos(n) ==
  CASE n.k \in {"id"} -> [k |-> "id", n |-> n.n]
    [] n.k \in {"num", "str", "bool", "time"} -> [k |-> n.k, lex |-> n.lex]
    [] n.k = "un" -> [k |-> "un", op |-> n.op, prefix |-> n.prefix, e |-> StripPos(n.e)]
    [] n.k = "bin" -> [k |-> "bin", op |-> n.op, fix |-> n.fix, l |-> StripPos(n.l), r |-> StripPos(n.r)]
    [] n.k = "tern" -> [k |-> "tern", l |-> StripPos(n.l), m |-> StripPos(n.m), r |-> StripPos(n.r)]
    [] n.k = "group" -> StripPos(n.e)
    [] n.k = "list" -> [k |-> "list", els |-> [i \in 1..Len(n.els) |-> StripPos(n.els[i])]]
    [] n.k = "map" -> [k |-> "map", ps |-> [i \in 1..Len(n.ps) |-> [key |-> StripPos(n.ps[i].key), val |-> StripPos(n.ps[i].val)]]]
    [] n.k = "obj" -> [k |-> "obj", fs |-> [i \in 1..Len(n.fs) |-> [n |-> n.fs[i].n, v |-> StripPos(n.fs[i].v)]]]
    [] n.k = "call" -> [k |-> "call", f |-> StripPos(n.f), args |-> [i \in 1..Len(n.args) |-> StripPos(n.args[i])]]
    [] n.k = "sub" -> [k |-> "sub", x |-> StripPos(n.x), i |-> StripPos(n.i)]
    [] n.k = "mem" -> [k |-> "mem", x |-> StripPos(n.x), n |-> n.n]
    [] OTHER -> n
\* a non-associative operator is never directly chained with itself (without parentheses)
RECURSIVE NoNonAssocChain(_)
NoNonAssocChain(n) ==
  CASE n.k = "bin" -> InfixNCheck(n) /\ NoNonAssocChain(n.l) /\ NoNonAssocChain(n.r)
    [] n.k = "un" -> NoNonAssocChain(n.e)
    [] n.k = "tern" -> NoNonAssocChain(n.l) /\ NoNonAssocChain(n.m) /\ NoNonAssocChain(n.r)
    [] n.k = "group" -> NoNonAssocChain(n.e)
    [] n.k = "list" -> \A i \in 1..Len(n.els) : NoNonAssocChain(n.els[i])
    [] n.k = "map" -> \A i \in 1..Len(n.ps) : NoNonAssocChain(n.ps[i].key) /\ NoNonAssocChain(n.ps[i].val)
    [] n.k = "obj" -> \A i \in 1..Len(n.fs) : NoNonAssocChain(n.fs[i].v)
    [] n.k = "call" -> NoNonAssocChain(n.f) /\ \A i \in 1..Len(n.args) : NoNonAssocChain(n.args[i])
    [] n.k = "sub" -> NoNonAssocChain(n.x) /\ NoNonAssocChain(n.i)
    [] n.k = "mem" -> NoNonAssocChain(n.x)
    [] OTHER -> TRUE
\* every node's span is exactly first token start .. last token end of its sub-tree
RECURSIVE SpansNest(_)
SpansNest(n) ==
  LET Inside(c) == c.pos.idx >= n.pos.idx /\ c.pos.end <= n.pos.end /\ SpansNest(c) IN
  /\ n.pos.idx < n.pos.end
  /\ CASE n.k = "bin" -> Inside(n.l) /\ Inside(n.r) /\ n.pos.idx = n.l.pos.idx /\ n.pos.end = n.r.pos.end
       [] n.k = "un" -> Inside(n.e) /\ (IF n.prefix THEN n.pos.idx = n.oppos.idx /\ n.pos.end = n.e.pos.end
                                        ELSE n.pos.idx = n.e.pos.idx /\ n.pos.end = n.oppos.end)
       [] n.k = "tern" -> Inside(n.l) /\ Inside(n.m) /\ Inside(n.r) /\ n.pos.idx = n.l.pos.idx /\ n.pos.end = n.r.pos.end
       [] n.k = "group" -> Inside(n.e) /\ n.pos.idx < n.e.pos.idx /\ n.pos.end > n.e.pos.end
       [] n.k = "list" -> \A i \in 1..Len(n.els) : Inside(n.els[i])
       [] n.k = "map" -> \A i \in 1..Len(n.ps) : Inside(n.ps[i].key) /\ Inside(n.ps[i].val)
       [] n.k = "obj" -> \A i \in 1..Len(n.fs) : Inside(n.fs[i].v)
       [] n.k = "call" -> Inside(n.f) /\ n.pos.idx = n.f.pos.idx /\ \A i \in 1..Len(n.args) : Inside(n.args[i])
       [] n.k = "sub" -> Inside(n.x) /\ Inside(n.i) /\ n.pos.idx = n.x.pos.idx
       [] n.k = "mem" -> Inside(n.x) /\ n.pos.idx = n.x.pos.idx /\ n.pos.end = n.npos.end
       [] OTHER -> TRUE
=============================================================================
