---------------------------- MODULE Gen_Front ----------------------------
(***************************************************************************)
(* Front end, Mode A + case generation (C08, C09, C12).  A case is an      *)
(* operator table (by id) and a source text; the state holds the           *)
(* specification's own lexing and parsing of it, and the properties are    *)
(* invariants of those states.                                             *)
(*   P_MODE = "lex"   all concatenations of <= P_SIZE atoms (characters and *)
(*                    short words) x the lexing operator sets              *)
(*            "toks"  all token strings of <= P_SIZE tokens, space-joined  *)
(*            "prec"  two-operator shapes over a family of operator tables *)
(*                    (every fixity x a grid of binding powers)            *)
(***************************************************************************)
EXTENDS YaeDesugar, YaeIO

VARIABLE st
Map1S(L, Mk(_)) == [i \in 1..Len(L) |-> Mk(L[i])]
Prod2(L1, L2, Mk(_, _)) ==
  [k \in 1..(Len(L1) * Len(L2)) |-> Mk(L1[((k - 1) \div Len(L2)) + 1], L2[((k - 1) % Len(L2)) + 1])]

(* ---- operator sets (by id; the harness builds the same tables from the emitted list) ---- *)
OpSet(id) ==
  CASE id = "builtin" -> BuiltinOps
    [] id = "overlap" -> BuiltinOps \o <<Op(N_spaceship, BP_CMP, "infixn"), Op(N_ltgt, BP_EQ, "infixn")>>
    [] id = "dotty" -> BuiltinOps \o <<Op(N_dotcaretdot, BP_TERM, "infixl"), Op(N_qq, BP_OR, "infixr"), Op(N_qdot, BP_MEMBER, "infixl")>>
    [] id = "words" -> BuiltinOps \o <<Op(N_in, BP_CMP, "infixn"), Op(N_eacute, BP_TERM, "infixl")>>
    [] id = "circ" -> BuiltinOps \o <<Op(N_dotmodcirc, BP_TERM, "infixl"), Op(N_modcirc, BP_PREFIX, "prefix")>>
    [] id = "custom" -> <<Op(N_plus, BP_PREFIX, "prefix"), Op(N_bang, BP_POSTFIX, "postfix"), Op(N_minus, BP_TERM, "infixl"),
                          Op(N_amp, BP_AND, "infixl"), Op(N_andand, BP_AND, "infixl"), Op(N_hash, BP_EXP, "infixr")>>
    [] OTHER -> <<>>
LexSets == <<"builtin", "overlap", "dotty", "words", "circ", "custom">>

(* ---- "lex": atoms ---- *)
Atoms == <<<<43>>, <<60>>, <<61>>, <<33>>, <<46>>, <<63>>, <<94>>, <<97>>, <<233>>, <<95>>, <<48>>, <<49>>, <<120>>, <<101>>,
           <<98>>, <<34>>, <<96>>, <<39>>, <<92>>, <<32>>, <<10>>, N_true, N_in, <<710>>, <<58>>, <<45>>>>
\* all strings of exactly n atoms
RECURSIVE AtomsN(_)
AtomsN(n) == IF n = 0 THEN <<<<>>>> ELSE Prod2(AtomsN(n - 1), Atoms, LAMBDA p, a : p \o a)
\* tokens after literals that span lines, and other position-sensitive texts
NL == <<10>>
LexExtra == <<<<39, 97>> \o NL \o <<98, 39, 32, 43, 32, 120>>, <<96, 97>> \o NL \o <<98, 96, 32, 43, 32, 120>>,
              <<34, 97>> \o NL \o <<98, 34, 32, 43, 32, 120>>, <<39>> \o NL \o NL \o <<39>> \o NL \o <<43, 32, 49>>,
              <<120>> \o NL \o <<43>> \o NL \o <<121, 32, 32, 122>>, <<96>> \o NL \o <<96, 96>> \o NL \o <<96, 120>>,
              <<233, 32, 26195, 32, 43>> \o NL \o <<32, 233>>, <<9, 120, 9, 43>> \o NL \o <<9, 121>>,
              <<34, 92, 110, 34, 32, 120>>, <<39, 233>> \o NL \o <<39, 120, 46, 121>>,
              <<49, 46, 53, 101, 43, 51, 32, 48, 120, 70, 32, 48, 98, 49, 48, 32, 48, 111, 55>>,
              <<49, 101, 48, 53, 32, 49, 46, 53, 101, 45, 48, 53, 32, 50, 69, 43, 48, 48, 55, 32, 48, 46, 50, 53, 101, 48, 48>>, <<49, 101, 48, 48>>, <<51, 101, 45, 48, 48, 55, 43, 49>>,
              <<97, 13, 10, 43, 32, 98, 13, 10, 32, 32, 42, 32, 99>>, <<96, 120, 13, 10, 121, 96, 32, 43, 32, 122>>, <<34, 112, 34, 32, 13, 10, 13, 10, 32, 39, 113, 13, 10, 114, 39, 32, 120>>, <<97, 13, 43, 13, 98, 32, 10, 13, 32, 99>>,
              <<49, 46, 50, 46, 51>>, <<49, 101, 53, 101, 51>>, <<48, 53>>, <<49, 46>>, <<46, 53>>, <<49, 101>>, <<48, 120>>,
              <<34, 92, 117, 48, 48, 52, 49, 34>>, <<34, 92, 47, 34>>, <<34, 92, 113, 34>>, <<34, 97>>, <<96, 97>>, <<39, 97>>,
              <<120, 46, 121, 63, 122, 58, 119>>, <<120, 46, 94, 46, 121>>, <<120, 63, 63, 121>>, <<120, 63, 46, 121>>,
              <<120, 32, 105, 110, 32, 121, 32, 105, 110, 116, 32, 105, 110, 120>>, <<110, 111, 116, 120, 32, 110, 111, 116, 32, 120>>,
              <<120, 46, 710, 121>>, <<120, 63, 710, 121>>, <<710, 120>>, <<120, 60, 61, 62, 121, 60, 61, 121, 60, 62, 121>>>>
\* (every universe is guarded by its mode: TLC evaluates constant definitions eagerly, used or not)
LexUniverse == IF P_MODE = "lex" THEN Concat([n \in 1..P_SIZE |-> AtomsN(n)]) \o LexExtra ELSE <<>>

(* ---- "toks": token alphabets (lexemes), joined by single spaces ---- *)
TokAlpha == <<<<120>>, <<49>>, N_plus, N_star, N_minus, N_lt, N_caret, N_bang, N_oror, N_lpar, N_rpar, N_lbr, N_rbr,
              N_colon, N_comma, N_question, N_dot>>
RECURSIVE TokStrN(_)
TokStrN(n) == IF n = 1 THEN [i \in 1..Len(TokAlpha) |-> TokAlpha[i]]
              ELSE Prod2(TokStrN(n - 1), TokAlpha, LAMBDA p, a : p \o <<32>> \o a)
TokUniverse == IF P_MODE = "toks" THEN Concat([n \in 1..P_SIZE |-> TokStrN(n)]) ELSE <<>>

(* ---- "prec": operator-table family and two-operator shapes ---- *)
BPs == <<4, 5, 6, 3, 22>>          \* half units: 2, 2.5, 3, 1.5, 11 -- interleaving with ?: (2), each other, and call (12)
Fixes == <<"infixl", "infixr", "infixn">>
\* table i: `+` gets (bp1, fix1), `*` gets (bp2, fix2), `~` is prefix with bp3, `!` postfix with bp3
PrecTables == Prod2(Prod2(BPs, Fixes, LAMBDA b, f : <<b, f>>), Prod2(BPs, Fixes, LAMBDA b, f : <<b, f>>),
                    LAMBDA o1, o2 : <<Op(N_plus, o1[1], o1[2]), Op(N_star, o2[1], o2[2])>>)
\* binding powers far above the built-in levels (33, 100.5, 1000): nothing in the rules depends on their magnitude
HiBPs == <<66, 201, 2000>>
PrecTablesHi == Prod2(Prod2(HiBPs, Fixes, LAMBDA b, f : <<b, f>>), Prod2(<<6, 66, 202>>, Fixes, LAMBDA b, f : <<b, f>>),
                      LAMBDA o1, o2 : <<Op(N_plus, o1[1], o1[2]), Op(N_star, o2[1], o2[2])>>)
UnTables == Prod2(BPs, Prod2(BPs, Fixes, LAMBDA b, f : <<b, f>>),
                  LAMBDA pb, o : <<Op(N_tilde, pb, "prefix"), Op(N_bang, pb, "postfix"), Op(N_plus, o[1], o[2])>>)
SP == <<32>>
X == <<120>>  Y == <<121>>  Z == <<122>>
Shapes2 == <<X \o SP \o N_plus \o SP \o Y \o SP \o N_star \o SP \o Z, X \o SP \o N_star \o SP \o Y \o SP \o N_plus \o SP \o Z,
             X \o SP \o N_plus \o SP \o Y \o SP \o N_plus \o SP \o Z, X \o SP \o N_star \o SP \o Y \o SP \o N_star \o SP \o Z,
             X \o SP \o N_plus \o SP \o Y \o SP \o N_star \o SP \o Z \o SP \o N_plus \o SP \o X,
             X \o SP \o N_question \o SP \o Y \o SP \o N_colon \o SP \o Z \o SP \o N_plus \o SP \o X,
             X \o SP \o N_plus \o SP \o Y \o SP \o N_question \o SP \o Z \o SP \o N_colon \o SP \o X,
             X \o SP \o N_plus \o SP \o Y \o N_lpar \o Z \o N_rpar, X \o SP \o N_plus \o SP \o Y \o N_dot \o Z,
             X \o SP \o N_star \o SP \o Y \o N_lbr \o Z \o N_rbr \o SP \o N_plus \o SP \o Z,
             N_lpar \o X \o SP \o N_plus \o SP \o Y \o N_rpar \o SP \o N_plus \o SP \o Z,
             X \o SP \o N_plus \o SP \o N_lpar \o Y \o SP \o N_plus \o SP \o Z \o N_rpar,
             N_lpar \o X \o SP \o N_plus \o SP \o Y \o N_rpar \o SP \o N_star \o SP \o Z \o SP \o N_plus \o SP \o X,
             \* parentheses directly around parentheses
             N_lpar \o N_lpar \o X \o SP \o N_plus \o SP \o Y \o N_rpar \o N_rpar \o SP \o N_star \o SP \o Z,
             Z \o SP \o N_star \o SP \o N_lpar \o N_lpar \o X \o SP \o N_plus \o SP \o Y \o N_rpar \o N_rpar,
             N_lpar \o N_lpar \o N_lpar \o X \o N_rpar \o N_rpar \o N_rpar \o SP \o N_plus \o SP \o N_lpar \o N_lpar \o Y \o N_rpar \o N_rpar>>
ShapesU == <<X \o SP \o N_plus \o SP \o N_tilde \o SP \o Y \o SP \o N_plus \o SP \o Z,
             X \o SP \o N_plus \o SP \o N_tilde \o SP \o N_lpar \o Y \o SP \o N_plus \o SP \o Z \o N_rpar,
             N_tilde \o SP \o N_tilde \o SP \o X \o SP \o N_plus \o SP \o Y \o SP \o N_bang,
             N_tilde \o SP \o X \o SP \o N_plus \o SP \o Y, X \o SP \o N_plus \o SP \o N_tilde \o SP \o Y,
             X \o SP \o N_plus \o SP \o Y \o SP \o N_bang, X \o SP \o N_bang \o SP \o N_plus \o SP \o Y,
             N_tilde \o SP \o X \o SP \o N_bang, N_tilde \o SP \o N_tilde \o SP \o X, X \o SP \o N_bang \o SP \o N_bang,
             N_tilde \o SP \o X \o N_dot \o Y, N_tilde \o SP \o X \o N_lpar \o Y \o N_rpar, N_tilde \o SP \o X \o SP \o N_question \o SP \o Y \o SP \o N_colon \o SP \o Z>>

\* non-associative operators in every chaining position (built-in table)
W == <<119>>
NAShapes == <<X \o SP \o N_lt \o SP \o Y \o SP \o N_lt \o SP \o Z,
              X \o SP \o N_lt \o SP \o Y \o SP \o N_lt \o SP \o Z \o SP \o N_oror \o SP \o W,
              W \o SP \o N_oror \o SP \o X \o SP \o N_lt \o SP \o Y \o SP \o N_lt \o SP \o Z,
              X \o SP \o N_lt \o SP \o Y \o SP \o N_lt \o SP \o Z \o SP \o N_plus \o SP \o W,
              X \o SP \o N_eqeq \o SP \o Y \o SP \o N_eqeq \o SP \o Z \o SP \o N_andand \o SP \o W,
              X \o SP \o N_eqeq \o SP \o Y \o SP \o N_lt \o SP \o Z \o SP \o N_eqeq \o SP \o W,
              X \o SP \o N_lt \o SP \o Y \o SP \o N_eqeq \o SP \o Z \o SP \o N_lt \o SP \o W,
              X \o SP \o N_lt \o SP \o Y \o SP \o N_le \o SP \o Z, X \o SP \o N_eqeq \o SP \o Y \o SP \o N_ne \o SP \o Z,
              N_lpar \o X \o SP \o N_lt \o SP \o Y \o N_rpar \o SP \o N_lt \o SP \o Z,
              X \o SP \o N_lt \o SP \o N_lpar \o Y \o SP \o N_lt \o SP \o Z \o N_rpar,
              N_lbr \o X \o SP \o N_lt \o SP \o Y \o SP \o N_lt \o SP \o Z \o N_rbr,
              W \o N_lpar \o X \o SP \o N_lt \o SP \o Y \o SP \o N_lt \o SP \o Z \o N_rpar,
              W \o SP \o N_question \o SP \o X \o SP \o N_lt \o SP \o Y \o SP \o N_lt \o SP \o Z \o SP \o N_colon \o SP \o W,
              N_bang \o SP \o X \o SP \o N_eqeq \o SP \o Y \o SP \o N_eqeq \o SP \o Z,
              X \o SP \o N_lt \o SP \o Y \o SP \o N_lt \o SP \o Z \o SP \o N_lt \o SP \o W \o SP \o N_oror \o SP \o W>>

\* sugar in every operand position (C10): all short token strings over a sugar-rich alphabet, plus longer shapes
SugarAlpha == <<<<120>>, <<49>>, N_plus, N_bang, N_lpar, N_rpar, N_lbr, N_rbr, N_comma, N_colon, N_question, N_dot, <<102>>>>
RECURSIVE SugarN(_)
SugarN(n) == IF n = 1 THEN [i \in 1..Len(SugarAlpha) |-> SugarAlpha[i]]
             ELSE Prod2(SugarN(n - 1), SugarAlpha, LAMBDA p, a : p \o <<32>> \o a)
RECURSIVE ArgList(_)
ArgList(n) == IF n = 1 THEN <<97, 48, 32, 43, 32, 48>> ELSE ArgList(n - 1) \o <<44, 32, 97>> \o NatDigits(n - 1) \o <<32, 43, 32>> \o NatDigits(n - 1)
SugarShapes ==
  [n \in 1..10 |-> <<114, 46, 102, 40>> \o ArgList(n) \o <<41>>]                       \* r.f(a0 + 0, a1 + 1, ...)
  \o <<<<120, 46, 102, 40, 121, 41, 40, 122, 41>>,                                        \* x.f(y)(z)
       <<40, 103, 41, 40, 120, 41>>, <<40, 102, 40, 120, 41, 41, 40, 121, 41>>,            \* (g)(x)  (f(x))(y)
       <<40, 99, 32, 63, 32, 102, 32, 58, 32, 103, 41, 40, 120, 41>>,                      \* (c ? f : g)(x)
       <<102, 115, 91, 105, 32, 43, 32, 49, 93, 40, 120, 41>>,                             \* fs[i + 1](x)
       <<120, 46, 102, 40, 121, 32, 43, 32, 122, 44, 32, 45, 119, 41>>,                    \* x.f(y + z, -w)
       <<123, 97, 58, 32, 120, 32, 43, 32, 121, 125, 46, 97>>,                             \* {a: x + y}.a
       <<91, 120, 58, 32, 45, 121, 44, 32, 40, 122, 41, 58, 32, 33, 119, 93>>,             \* [x: -y, (z): !w]
       <<120, 32, 63, 32, 121, 32, 63, 32, 49, 32, 58, 32, 50, 32, 58, 32, 122, 46, 102, 40, 41>>,   \* x ? y ? 1 : 2 : z.f()
       <<40, 40, 120, 41, 41, 46, 102, 40, 40, 121, 41, 41>>,                              \* ((x)).f((y))
       <<45, 120, 46, 102, 40, 41, 32, 43, 32, 33, 121, 91, 48, 93>>,                      \* -x.f() + !y[0]
       <<120, 46, 102, 46, 103, 40, 49, 41, 46, 104>>,                                     \* x.f.g(1).h
       <<34, 72, 34, 46, 108, 101, 110, 40, 41>>, <<97, 46, 98, 46, 99, 40, 49, 44, 32, 50, 41>>,      \* "H".len()  a.b.c(1, 2)
       \* explicit calls without sugar beneath them, of names that have polymorphic AND monomorphic overloads (for the
       \* "one parsed tree compiled for several environments" part of the harness)
       <<40, 120, 32, 61, 61, 32, 120, 41, 32, 61, 61, 32, 120>>, <<120, 32, 33, 61, 32, 40, 120, 32, 33, 61, 32, 120, 41>>, <<40, 40, 120, 41, 41, 32, 43, 32, 40, 40, 40, 49, 41, 41, 41>>,      \* (x == x) == x   x != (x != x)   ((x))
       <<108, 101, 110, 40, 120, 41>>,      \* len(x)
       <<108, 101, 110, 40, 120, 41, 32, 43, 32, 48>>,      \* len(x) + 0
       <<91, 108, 101, 110, 40, 120, 41, 93>>,      \* [len(x)]
       <<120, 46, 108, 101, 110, 40, 41>>,      \* x.len()
       <<120, 32, 61, 61, 32, 120>>,      \* x == x
       <<91, 120, 32, 61, 61, 32, 120, 93>>,      \* [x == x]
       <<120, 32, 33, 61, 32, 120, 32, 63, 32, 49, 32, 58, 32, 50>>,      \* x != x ? 1 : 2
       <<108, 101, 110, 40, 120, 41, 32, 61, 61, 32, 108, 101, 110, 40, 120, 41>>,      \* len(x) == len(x)
       <<115, 116, 114, 105, 110, 103, 40, 120, 41>>,      \* string(x)
       <<120, 46, 108, 101, 110, 40, 41, 46, 115, 116, 114, 105, 110, 103, 40, 41>>>>      \* x.len().string()
SugarUniverse == IF P_MODE = "sugar" THEN Concat([n \in 1..P_SIZE |-> SugarN(n)]) \o SugarShapes ELSE <<>>

\* bracket nests (C12): nested map keys, groups, objects, lists; depth 1..P_SIZE
RECURSIVE RepS(_, _)
RepS(x, n) == IF n = 0 THEN <<>> ELSE x \o RepS(x, n - 1)
Nests(n) == <<RepS(N_lbr, n) \o <<49>> \o RepS(N_rbr \o N_colon \o <<49>>, n - 1) \o N_rbr,       \* [[[1]:1]:1]
              RepS(N_lpar, n) \o <<49>> \o RepS(N_rpar, n), RepS(N_lbr, n) \o <<49>> \o RepS(N_rbr, n),
              RepS(N_lbrace \o <<97>> \o N_colon, n) \o <<49>> \o RepS(N_rbrace, n),
              RepS(N_lbr, n) \o RepS(N_rbr, n - 1), RepS(N_lbr \o <<49>> \o N_colon, n) \o <<49>> \o RepS(N_rbr, n),     \* [1:[1:[1:1]]]
              RepS(N_lbr, n) \o <<49>> \o N_colon>>
NestUniverse == IF P_MODE = "nests" THEN Concat([n \in 1..P_SIZE |-> Nests(n)]) ELSE <<>>

\* a universe element: [ops |-> table (sequence of Op), opsid |-> id or "", src]
Universe ==
  CASE P_MODE = "lex" -> Prod2(LexSets, LexUniverse, LAMBDA id, s : [opsid |-> id, ops |-> OpSet(id), src |-> s])
    [] P_MODE = "toks" -> Prod2(<<"builtin", "custom">>, TokUniverse, LAMBDA id, s : [opsid |-> id, ops |-> OpSet(id), src |-> s])
    [] P_MODE = "nests" -> Map1S(NestUniverse, LAMBDA s : [opsid |-> "builtin", ops |-> BuiltinOps, src |-> s])
    [] P_MODE = "sugar" -> Map1S(SugarUniverse, LAMBDA s : [opsid |-> "builtin", ops |-> BuiltinOps, src |-> s])
    [] P_MODE = "prec" -> Prod2(PrecTables, Shapes2, LAMBDA t, s : [opsid |-> "", ops |-> t, src |-> s])
                            \o Prod2(PrecTablesHi, Shapes2, LAMBDA t, s : [opsid |-> "", ops |-> t, src |-> s])
                            \o Prod2(UnTables, ShapesU, LAMBDA t, s : [opsid |-> "", ops |-> t, src |-> s])
                            \o Prod2(<<"builtin", "overlap">>, NAShapes, LAMBDA id, s : [opsid |-> id, ops |-> OpSet(id), src |-> s])
    [] OTHER -> <<>>
NU == Len(Universe)
NSeeds == 64
SeedLo(i) == ((i - 1) * NU) \div NSeeds + 1
SeedHi(i) == (i * NU) \div NSeeds

MkCase(u) ==
  LET lx == Lex(u.ops, u.src) IN
  [u |-> u, lx |-> lx, pr |-> IF lx.ok THEN Parse(u.ops, lx.toks) ELSE [ok |-> FALSE, why |-> "lex", st |-> [i |-> 1, eats |-> 0]]]
Init == st \in {[seed |-> i] : i \in 1..NSeeds}
Next == /\ "seed" \in DOMAIN st
        /\ \E j \in SeedLo(st.seed)..SeedHi(st.seed) : st' = MkCase(Universe[j])
IsCase == "u" \in DOMAIN st
Emit == IsCase => EmitCase([fam |-> "front", opsid |-> st.u.opsid, ops |-> st.u.ops, src |-> st.u.src])

(* ---- C09 on the specification ---- *)
LexOk == IsCase /\ st.lx.ok
Partition == LexOk => TokensPartition(st.u.src, st.lx.toks)
Positions == LexOk => PositionsExact(st.u.src, st.lx.toks)
Longest == LexOk => LongestOperator(st.u.ops, st.u.src, st.lx.toks)
WholeWord == LexOk => WholeWords(st.u.ops, st.u.src, st.lx.toks)
DotQuestion == LexOk => DotQuestionWhole(st.u.ops, st.u.src, st.lx.toks)
\* an error is reported exactly where no rule applies: everything before it was tokenised
ErrorIsLocal == IsCase /\ ~st.lx.ok => TokensPartition(Sub(st.u.src, 1, st.lx.at), st.lx.toks) /\ st.lx.at < Len(st.u.src)

(* ---- C08 on the specification ---- *)
ParseOk == IsCase /\ st.lx.ok /\ st.pr.ok
NonAssocNeverChained == ParseOk => NoNonAssocChain(st.pr.node)
SpansExact == ParseOk => SpansNest(st.pr.node) /\ st.pr.node.pos.idx = st.lx.toks[1].idx
                           /\ st.pr.node.pos.end = st.lx.toks[Len(st.lx.toks)].end
\* precedence / associativity as the declarations dictate, for x o1 y o2 z
BinOf(k) == InfixOp(st.u.ops, k)
ExpectTwo(o1, o2) ==    \* "left" = (x o1 y) o2 z ; "right" = x o1 (y o2 z) ; "reject" ; "any"
  LET a == BinOf(o1) b == BinOf(o2) IN
  IF a.bp > b.bp THEN "left" ELSE IF a.bp < b.bp THEN "right"
  ELSE IF a.fix = "infixl" /\ b.fix = "infixl" THEN "left"
  ELSE IF a.fix = "infixr" /\ b.fix = "infixr" THEN "right"
  ELSE IF a.fix = "infixn" /\ b.fix = "infixn" /\ o1 = o2 THEN "reject"
  ELSE "any"
IsXoYoZ == LexOk /\ Len(st.lx.toks) = 5 /\ st.lx.toks[1].k = K_SYM /\ st.lx.toks[3].k = K_SYM /\ st.lx.toks[5].k = K_SYM
              /\ st.lx.toks[2].k \in {N_plus, N_star} /\ st.lx.toks[4].k \in {N_plus, N_star} /\ P_MODE = "prec"
PrecedenceHonoured ==
  IsXoYoZ =>
    LET ex == ExpectTwo(st.lx.toks[2].k, st.lx.toks[4].k) IN
    CASE ex = "left" -> st.pr.ok /\ st.pr.node.k = "bin" /\ st.pr.node.op = st.lx.toks[4].k /\ st.pr.node.l.k = "bin"
      [] ex = "right" -> st.pr.ok /\ st.pr.node.k = "bin" /\ st.pr.node.op = st.lx.toks[2].k /\ st.pr.node.r.k = "bin"
      [] ex = "reject" -> ~st.pr.ok
      [] OTHER -> TRUE
(* ---- C10 on the specification ---- *)
DesugarsToCore == ParseOk => IsCore(Desugar(st.pr.node))
DesugarIdempotent == ParseOk => Desugar(Desugar(st.pr.node)) = Desugar(st.pr.node)
DesugarKeepsOrder == ParseOk => OperandsInSourceOrder(st.pr.node)
\* C12: parser work (calls of eat) is bounded by a polynomial in the number of tokens
EatsBounded == IsCase /\ st.lx.ok => st.pr.st.eats <= 4 * (Len(st.lx.toks) + 1) * (Len(st.lx.toks) + 1)
=============================================================================
