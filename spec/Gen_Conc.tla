---------------------------- MODULE Gen_Conc ----------------------------
(***************************************************************************)
(* C14, Mode A: every interleaving of P_SIZE goroutines over the shared-    *)
(* memory skeleton (YaeConc), one scenario per P_MODE:                     *)
(*   engines   each goroutine its own engine: first compilation + invoke   *)
(*   warm      one engine that finished a first compilation: compile+invoke*)
(*   invoke    one compiled expression invoked by all (time-zone cache)    *)
(*   mixed     warmed engine: compilations next to invocations             *)
(* negative controls -- TLC must find the violation, or the invariants are *)
(* vacuous:                                                                *)
(*   racy      engines, with the non-atomic counter the code used to have  *)
(*   cold      one engine that has NOT finished its first compilation      *)
(*   nolock    the time-zone cache without its mutex                       *)
(* P_MODE = "cases": the scenario descriptors the Go harness runs.         *)
(***************************************************************************)
EXTENDS YaeConc, YaeUniverse2, YaeIO

VARIABLE st
N == IF P_SIZE < 2 THEN 2 ELSE P_SIZE
Draws == 2
NoLockInvoke(e, c) == <<Rd(LFuns(e)), Rd(LCode(c)), [op |-> "tz_rd"], [op |-> "tz_parse"], [op |-> "tz_wr"], [op |-> "done_invoke"]>>
Progs ==
  CASE P_MODE = "engines" -> [p \in 1..N |-> CompileSteps(p, p, Draws, "atomic") \o InvokeSteps(p, p, p <= 2)]
    [] P_MODE = "racy" -> [p \in 1..N |-> CompileSteps(p, p, Draws, "racy")]
    [] P_MODE = "warm" -> [p \in 1..N |-> CompileSteps(1, p, Draws, "atomic") \o InvokeSteps(1, p, p <= 2)]
    [] P_MODE = "cold" -> [p \in 1..N |-> CompileSteps(1, p, 1, "atomic")]
    [] P_MODE = "invoke" -> [p \in 1..N |-> InvokeSteps(1, 0, TRUE) \o InvokeSteps(1, 0, p = 1)]
    [] P_MODE = "nolock" -> [p \in 1..N |-> NoLockInvoke(1, 0)]
    [] P_MODE = "mixed" -> [p \in 1..N |-> IF p % 2 = 1 THEN CompileSteps(1, p, Draws, "atomic") \o InvokeSteps(1, p, FALSE)
                                                      ELSE InvokeSteps(1, 0, TRUE)]
    [] OTHER -> [p \in 1..1 |-> <<>>]
Warm == P_MODE \in {"warm", "invoke", "mixed", "nolock"}
NE == IF P_MODE \in {"engines", "racy"} THEN N ELSE 1

(* ---- the harness cases ---- *)
Backends == <<"vm", "vmct", "closure", "interp">>
Kinds == <<"engines", "warm", "invoke", "mixed", "shared">>
NP == Len(ConcProgs)
Gs == IF P_SIZE >= 2 THEN <<2, 4, 8>> ELSE <<4>>
Rot == IF P_SIZE >= 2 THEN NP ELSE 6
Scenario(kind, g, b, r) ==
  [fam |-> "conc", kind |-> kind, g |-> g, backend |-> b, rounds |-> IF kind \in {"invoke", "shared"} THEN 6 ELSE 2, envid |-> "E1", rot |-> r,
   progs |-> [i \in 1..g |-> ConcProgs[((r * 3 + (i - 1) * (IF kind \in {"invoke", "shared"} THEN 0 ELSE 5)) % NP) + 1]],
   ovs |-> [i \in 1..g |-> ConcOv(i)]]
\* one compiled expression invoked by all: every program of the pool (rot = 6 r, so that r * 3 runs through all of them)
Cases == Concat([k \in 1..Len(Kinds) |-> Concat([gi \in 1..Len(Gs) |-> Concat([b \in 1..Len(Backends) |->
            [r \in 1..(IF Kinds[k] \in {"invoke", "shared"} THEN NP ELSE Rot) |->
               Scenario(Kinds[k], Gs[gi], Backends[b], IF Kinds[k] \in {"invoke", "shared"} THEN 6 * (r - 1) ELSE r - 1)]])])])

Init == IF P_MODE = "cases" THEN st = [seed |-> 0] /\ CInit([p \in 1..1 |-> <<>>], TRUE, 1)
        ELSE st = [model |-> P_MODE] /\ CInit(Progs, Warm, NE)
Next == IF P_MODE = "cases"
        THEN /\ "seed" \in DOMAIN st /\ \E j \in 1..Len(Cases) : st' = Cases[j]
             /\ UNCHANGED cvars
        ELSE CNext /\ UNCHANGED st
Emit == "fam" \in DOMAIN st => EmitCase(st)
=============================================================================
