package main

// Projections between yae's Go data and the JSON shapes the TLA+ specification
// uses (see spec/YaeNum.tla, YaeTypes.tla, YaeValues.tla).  Text is always an
// array of Unicode code points.

import (
	"fmt"
	"math"
	"math/big"
	"reflect"
	"sort"
	"strconv"
	"time"

	"github.com/goghcrow/yae/types"
	"github.com/goghcrow/yae/val"
)

// ---------------------------------------------------------------- text
func cps(s string) A {
	rs := []rune(s)
	out := make(A, len(rs))
	for i, r := range rs {
		out[i] = int(r)
	}
	return out
}

func str(v interface{}) string {
	a, ok := v.([]interface{})
	if !ok {
		if s, ok := v.(string); ok {
			return s
		}
		panic(fmt.Sprintf("str: not a code point array: %T %v", v, v))
	}
	rs := make([]rune, len(a))
	for i, x := range a {
		rs[i] = rune(toInt(x))
	}
	return string(rs)
}

func toInt(x interface{}) int {
	switch n := x.(type) {
	case float64:
		return int(n)
	case int:
		return n
	case int64:
		return int(n)
	case json_number:
		i, _ := strconv.Atoi(string(n))
		return i
	}
	panic(fmt.Sprintf("toInt: %T %v", x, x))
}

type json_number string

func intsOf(a A) A {
	out := make(A, len(a))
	for i, x := range a {
		out[i] = toInt(x)
	}
	return out
}

func arr(x interface{}) A {
	if x == nil {
		return A{}
	}
	return x.([]interface{})
}
func obj(x interface{}) J { return x.(map[string]interface{}) }
func boolv(x interface{}) bool {
	b, _ := x.(bool)
	return b
}

// ---------------------------------------------------------------- numbers
var two32 = new(big.Int).Lsh(big.NewInt(1), 32)

// numJ: float64 -> canonical number record of YaeNum (normal form of Fin)
func numJ(f float64) J {
	if math.IsNaN(f) {
		return J{"k": "nan"}
	}
	if f == 0 && math.Signbit(f) {
		return J{"k": "nzero"}
	}
	if math.IsInf(f, 0) {
		return J{"k": "inf", "neg": f < 0}
	}
	for _, t := range []int{1, 2, 4, -1, -2, -4} {
		if f == float64(t)*1e-9 {
			return J{"k": "tau", "t": t}
		}
	}
	bf := new(big.Float).SetPrec(200).SetFloat64(f)
	sc := new(big.Float).SetPrec(200).SetMantExp(bf, 32) // f * 2^32
	if sc.IsInt() {
		K, _ := sc.Int(nil)
		e := new(big.Int).Mod(K, big.NewInt(4096)) // 0..4095
		if e.Cmp(big.NewInt(2048)) > 0 {
			e.Sub(e, big.NewInt(4096))
		}
		Aa := new(big.Int).Sub(K, e)
		Aa.Rsh(Aa, 12) // exact: divisible by 4096 ; value = A/2^20 + e/2^32
		s := 20
		for s > 0 && Aa.Bit(0) == 0 {
			Aa.Rsh(Aa, 1)
			s--
		}
		lim := big.NewInt(1 << 30)
		abs := new(big.Int).Abs(Aa)
		if abs.Cmp(lim) < 0 {
			ip := new(big.Int).Rsh(new(big.Int).Set(abs), uint(s))
			if e.Sign() == 0 || ip.Cmp(big.NewInt(1<<20)) < 0 {
				return J{"k": "fin", "n": int(Aa.Int64()), "s": s, "e": int(e.Int64())}
			}
		}
	}
	if f == math.Trunc(f) && math.Abs(f) >= 1<<30 {
		d := new(big.Float).SetFloat64(math.Abs(f)).Text('f', 0)
		var r string
		if math.Abs(f) < 1<<63 {
			r = strconv.FormatInt(int64(f), 10)
		} else {
			r = strconv.FormatFloat(f, 'f', -1, 64)
		}
		digits := make(A, len(d))
		for i, c := range d {
			digits[i] = int(c - '0')
		}
		return J{"k": "big", "neg": f < 0, "d": digits, "r": cps(r)}
	}
	return J{"k": "raw", "txt": cps(strconv.FormatFloat(f, 'g', -1, 64))}
}

// numFromJ: number record -> float64; the record must denote exactly that double
func numFromJ(j J) float64 {
	switch j["k"] {
	case "nzero":
		return math.Copysign(0, -1)
	case "fin":
		n, s, e := toInt(j["n"]), toInt(j["s"]), toInt(j["e"])
		f := math.Ldexp(float64(n), -s) + math.Ldexp(float64(e), -32)
		back := numJ(f)
		if back["k"] != "fin" || toInt(back["n"]) != n || toInt(back["s"]) != s || toInt(back["e"]) != e {
			panic(fmt.Sprintf("number record %v is not exactly representable / canonical (got %v)", j, back))
		}
		return f
	case "big":
		ds := arr(j["d"])
		b := make([]byte, len(ds))
		for i, d := range ds {
			b[i] = byte('0' + toInt(d))
		}
		bf, _, err := big.ParseFloat(string(b), 10, 200, big.ToNearestEven)
		if err != nil {
			panic(err)
		}
		f, acc := bf.Float64()
		if acc != big.Exact {
			panic(fmt.Sprintf("big number %s is not an exact double", string(b)))
		}
		if boolv(j["neg"]) {
			f = -f
		}
		if back := numJ(f); back["k"] != "big" || fmt.Sprint(back["r"]) != fmt.Sprint(arr(j["r"])) && fmt.Sprint(back["r"]) != fmt.Sprint(intsOf(arr(j["r"]))) {
			panic(fmt.Sprintf("big number record %v: canonical rendering is %v", j, back["r"]))
		}
		return f
	case "tau":
		return float64(toInt(j["t"])) * 1e-9
	case "inf":
		if boolv(j["neg"]) {
			return math.Inf(-1)
		}
		return math.Inf(1)
	case "nan":
		return math.NaN()
	}
	panic(fmt.Sprintf("numFromJ: %v", j))
}

// ---------------------------------------------------------------- types
func typeJ(t *types.Type) J {
	if t == nil {
		return J{"k": "nil"}
	}
	switch t.Kind {
	case types.KNum:
		return J{"k": "num"}
	case types.KStr:
		return J{"k": "str"}
	case types.KBool:
		return J{"k": "bool"}
	case types.KTime:
		return J{"k": "time"}
	case types.KTop:
		return J{"k": "top"}
	case types.KBot:
		return J{"k": "bot"}
	case types.KTyVar:
		return J{"k": "var", "n": t.TyVar().Name}
	case types.KList:
		return J{"k": "list", "el": typeJ(t.List().El)}
	case types.KMaybe:
		return J{"k": "maybe", "el": typeJ(t.Maybe().Elem)}
	case types.KMap:
		return J{"k": "map", "key": typeJ(t.Map().Key), "val": typeJ(t.Map().Val)}
	case types.KObj:
		fs := A{}
		for _, f := range t.Obj().Fields {
			fs = append(fs, J{"n": cps(f.Name), "t": typeJ(f.Val)})
		}
		return J{"k": "obj", "fs": fs}
	case types.KFun:
		ps := A{}
		for _, p := range t.Fun().Param {
			ps = append(ps, typeJ(p))
		}
		return J{"k": "fun", "name": cps(t.Fun().Name), "ps": ps, "ret": typeJ(t.Fun().Return)}
	default:
		if t.Kind.String() == "Tuple" {
			ts := A{}
			for _, p := range t.Tuple().Val {
				ts = append(ts, typeJ(p))
			}
			return J{"k": "tuple", "ts": ts}
		}
		return J{"k": "unknown-kind"}
	}
}

// typeBuilder builds *types.Type from JSON; with share=true structurally identical
// composite sub-terms are built once and the same pointer is reused
type typeBuilder struct {
	share bool
	memo  map[string]*types.Type
}

func typeFromJ(j J) *types.Type { return (&typeBuilder{}).build(j) }

func (b *typeBuilder) build(j J) *types.Type {
	k := j["k"].(string)
	switch k {
	case "num":
		return types.Num
	case "str":
		return types.Str
	case "bool":
		return types.Bool
	case "time":
		return types.Time
	case "top":
		return types.Top
	case "bot":
		return types.Bottom
	case "var":
		tv := &types.TypeVariable{Type: types.Type{Kind: types.KTyVar}, Name: j["n"].(string)}
		return &tv.Type
	}
	key := ""
	if b.share {
		key = fmt.Sprint(j)
		if t, ok := b.memo[key]; ok {
			return t
		}
	}
	var t *types.Type
	switch k {
	case "list":
		t = types.List(b.build(obj(j["el"])))
	case "maybe":
		t = types.Maybe(b.build(obj(j["el"])))
	case "map":
		t = types.Map(b.build(obj(j["key"])), b.build(obj(j["val"])))
	case "obj":
		fs := []types.Field{}
		for _, f := range arr(j["fs"]) {
			fs = append(fs, types.Field{Name: str(obj(f)["n"]), Val: b.build(obj(obj(f)["t"]))})
		}
		t = types.Obj(fs)
	case "fun":
		ps := []*types.Type{}
		for _, p := range arr(j["ps"]) {
			ps = append(ps, b.build(obj(p)))
		}
		t = types.Fun(str(j["name"]), ps, b.build(obj(j["ret"])))
	case "tuple":
		ts := []*types.Type{}
		for _, p := range arr(j["ts"]) {
			ts = append(ts, b.build(obj(p)))
		}
		t = types.Tuple(ts)
	default:
		panic("typeFromJ: " + k)
	}
	if b.share {
		if b.memo == nil {
			b.memo = map[string]*types.Type{}
		}
		b.memo[key] = t
	}
	return t
}

// ---------------------------------------------------------------- values
// valJ projects a *val.Val deeply: every nested component carries the dynamic
// type stored in it, absent components are {"k":"nil"}.
func valJ(v *val.Val) J { return valJd(v, 0) }

func valJd(v *val.Val, depth int) J {
	if v == nil {
		return J{"k": "nil"}
	}
	if depth > 110 {
		return J{"k": "too-deep"}
	}
	if v.Type == nil {
		return J{"k": "nil-type"}
	}
	switch v.Type.Kind {
	case types.KNum:
		return J{"k": "num", "v": numJ(v.Num().V)}
	case types.KStr:
		return J{"k": "str", "v": cps(v.Str().V)}
	case types.KBool:
		return J{"k": "bool", "v": v.Bool().V}
	case types.KTime:
		t := v.Time().V
		if t.Nanosecond() == 0 && t.Location() == time.Local {
			return J{"k": "time", "v": int(t.Unix())}
		}
		if t.Location() == time.Local {
			return J{"k": "time", "v": int(t.Unix()), "ns": t.Nanosecond()} // sub-second instants (quarters of a second are in the domain)
		}
		return J{"k": "time", "v": int(t.Unix()), "ns": t.Nanosecond(), "zone": cps(t.Location().String())}
	case types.KList:
		els := A{}
		for _, e := range v.List().V {
			els = append(els, valJd(e, depth+1))
		}
		return J{"k": "list", "ty": typeJ(v.Type), "els": els}
	case types.KMap:
		type ent struct {
			kk, kt string
			v      *val.Val
		}
		var es []ent
		for k, x := range v.Map().V {
			kind := types.Kind(reflect.ValueOf(k).Field(0).Int())
			es = append(es, ent{kind.String(), k.String(), x})
		}
		sort.Slice(es, func(i, j int) bool {
			if es[i].kt != es[j].kt {
				return es[i].kt < es[j].kt
			}
			return es[i].kk < es[j].kk
		})
		ents := A{}
		for _, e := range es {
			ents = append(ents, J{"kk": e.kk, "kt": cps(e.kt), "val": valJd(e.v, depth+1)})
		}
		return J{"k": "map", "ty": typeJ(v.Type), "ents": ents}
	case types.KObj:
		vals := A{}
		for _, e := range v.Obj().V {
			vals = append(vals, valJd(e, depth+1))
		}
		return J{"k": "obj", "ty": typeJ(v.Type), "vals": vals}
	case types.KMaybe:
		mb := v.Maybe()
		if mb.V == nil {
			return J{"k": "maybe", "ty": typeJ(v.Type), "some": false, "v": J{"k": "nil"}}
		}
		return J{"k": "maybe", "ty": typeJ(v.Type), "some": true, "v": valJd(mb.V, depth+1)}
	case types.KFun:
		return J{"k": "fun", "ty": typeJ(v.Type)}
	}
	return J{"k": "unknown-kind"}
}

// valFromJ builds a *val.Val from the specification's value shape
//
//	{"k":"num","v":N} {"k":"str","v":[cp]} {"k":"bool","v":b} {"k":"time","v":sec}
//	{"k":"list","ty":T,"els":[V]} {"k":"map","ty":T,"ents":[{"key":V,"val":V}]}
//	{"k":"obj","ty":T,"vals":[V]} {"k":"maybe","ty":T,"some":b,"v":V}
func valFromJ(j J) *val.Val {
	switch j["k"] {
	case "num":
		return val.Num(numFromJ(obj(j["v"])))
	case "str":
		return val.Str(str(j["v"]))
	case "bool":
		return val.Bool(boolv(j["v"]))
	case "time":
		if ns, ok := j["ns"]; ok {
			return val.Time(time.Unix(int64(toInt(j["v"])), int64(toInt(ns))))
		}
		return val.Time(time.Unix(int64(toInt(j["v"])), 0))
	case "list":
		ty := typeFromJ(obj(j["ty"]))
		els := arr(j["els"])
		l := val.List(ty.List(), len(els)).List()
		for i, e := range els {
			l.V[i] = valFromJ(obj(e))
		}
		return l.Vl()
	case "map":
		ty := typeFromJ(obj(j["ty"]))
		m := val.Map(ty.Map()).Map()
		for _, e := range arr(j["ents"]) {
			k := valFromJ(obj(obj(e)["key"]))
			m.V[k.Key()] = valFromJ(obj(obj(e)["val"]))
		}
		return m.Vl()
	case "obj":
		ty := typeFromJ(obj(j["ty"]))
		o := val.Obj(ty.Obj()).Obj()
		for i, e := range arr(j["vals"]) {
			o.V[i] = valFromJ(obj(e))
		}
		return o.Vl()
	case "fun":
		return funValues[j["fid"].(string)]()
	case "maybe":
		ty := typeFromJ(obj(j["ty"]))
		if !boolv(j["some"]) {
			return val.Nothing(ty.Maybe().Elem)
		}
		return val.Just(ty.Maybe().Elem, valFromJ(obj(j["v"])))
	}
	panic(fmt.Sprintf("valFromJ: %v", j["k"]))
}

// classify turns a recovered panic value / error text into a failure class.
// Error *texts* are never compared by the specification; only the class is.
func classify(r interface{}) string {
	if r == nil {
		return "none"
	}
	s := fmt.Sprint(r)
	if _, ok := r.(interface{ RuntimeError() }); ok || hasPrefix(s, "runtime error") {
		switch {
		case contains(s, "index out of range"), contains(s, "slice bounds out of range"):
			return "rt-bounds"
		case contains(s, "integer divide by zero"):
			return "rt-divide"
		case contains(s, "nil pointer"), contains(s, "invalid memory address"):
			return "rt-nil"
		case contains(s, "interface conversion"):
			return "rt-typeassert"
		}
		return "rt-other"
	}
	switch {
	case hasPrefix(s, "out of range "):
		return "assert-index"
	case hasPrefix(s, "undefined key "):
		return "assert-key"
	case hasPrefix(s, "error parsing regexp"):
		return "regex"
	case s == "unreachable":
		return "unreachable"
	case hasPrefix(s, "unsupported opcode"):
		return "bad-opcode"
	case s == "over exec limit":
		return "exec-limit"
	case s == "":
		return "stack-underflow"
	case contains(s, "interface conversion"):
		return "rt-typeassert"
	case contains(s, "index out of range"), contains(s, "slice bounds out of range"):
		return "rt-bounds"
	case contains(s, "integer divide by zero"):
		return "rt-divide"
	case contains(s, "nil pointer"), contains(s, "invalid memory address"):
		return "rt-nil"
	}
	return "other"
}

func hasPrefix(s, p string) bool { return len(s) >= len(p) && s[:len(p)] == p }
func contains(s, sub string) bool {
	for i := 0; i+len(sub) <= len(s); i++ {
		if s[i:i+len(sub)] == sub {
			return true
		}
	}
	return false
}

func clip(s string, n int) string {
	if len(s) > n {
		return s[:n]
	}
	return s
}
