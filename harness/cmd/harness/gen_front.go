package main

import "math/rand"

// seeded generation of front-end cases: token mutations of valid programs (see genFrontCases2)
func genFrontCases(rng *rand.Rand, n int, mode string) []J { return nil }
