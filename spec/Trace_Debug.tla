---------------------------- MODULE Trace_Debug ----------------------------
(***************************************************************************)
(* Mode C for C19.  The specification lexes and parses the recorded source *)
(* itself (so that columns are its own), evaluates it in debug mode and    *)
(* compares: the recorded entries (value, column) in recording order, the  *)
(* outcome against normal evaluation, and the report (declaratively).      *)
(***************************************************************************)
EXTENDS YaeDebug, YaeUniverse, YaeIO

Obs == ObsLoaded
N == Len(Obs)
VARIABLE st
RECURSIVE ProjD(_)
ProjD(v) ==
  CASE v.k = "list" -> [v EXCEPT !.els = [i \in 1..Len(v.els) |-> ProjD(v.els[i])]]
    [] v.k = "map" -> [v EXCEPT !.ents = [i \in 1..Len(v.ents) |-> [v.ents[i] EXCEPT !.val = ProjD(@)]]]
    [] v.k = "obj" -> [v EXCEPT !.vals = [i \in 1..Len(v.vals) |-> ProjD(v.vals[i])]]
    [] v.k = "maybe" -> IF v.some THEN [v EXCEPT !.v = ProjD(@)] ELSE v
    [] v.k = "fun" -> [k |-> "fun", ty |-> v.ty]
    [] OTHER -> v
EntN(es) == [i \in 1..Len(es) |-> [v |-> NormVal(es[i].v), col |-> es[i].col]]
RecN(rs) == [i \in 1..Len(rs) |-> [v |-> NormVal(ProjD(rs[i].v)), col |-> rs[i].col]]
KindsFor(why) == CASE why = "index" -> {"assert-index", "rt-bounds"} [] why = "key" -> {"assert-key"}
                   [] why = "mod0" -> {"rt-divide"} [] why = "regex" -> {"regex"} [] OTHER -> {}
\* the observed entries, as records the report must show (values as projected: render them via the specification)
Judge(rec) ==
  LET o == rec.obs
      died == "died" \in DOMAIN o
      env == InEnv(StdEnvIn(rec.envid))
      pre == StdPre(rec.envid)
      fs == IF died THEN [stage |-> "none"] ELSE FromSource(BuiltinOps, o.src, env, pre, StdPost(rec.envid)) IN
  IF died THEN {"total"}
  \* a source the specification does not accept (lexing, parsing, checking) must not be accepted by the code either
  ELSE IF fs.stage # "run" THEN (IF fs.stage = "ood" \/ o.dbg.class = "reject" THEN {} ELSE {"frontend"})
  ELSE LET d == DebugEval(fs.e, env, FunTable2(pre, StdPost(rec.envid)))
           g == o.dbg
           judged == d.st \in {"ok", "fail"} IN
       IF ~judged THEN {}
       ELSE \* same result as normal evaluation
            (IF d.st # fs.r.st THEN {"specsame"} ELSE {})
            \cup (IF d.st = "ok" /\ ~(g.class = "value" /\ NormVal(g.v) = NormVal(ProjD(d.v))) THEN {"same"} ELSE {})
            \cup (IF d.st = "fail" /\ ~(g.class = "fail" /\ g.kind \in KindsFor(d.why)) THEN {"samefail"} ELSE {})
            \* exactly the evaluated terms, in evaluation order, each at the column of its own term
            \cup (IF g.class \in {"value", "fail"} /\ EntN(g.entries) # RecN(d.recs) THEN
                    {IF [i \in 1..Len(g.entries) |-> NormVal(g.entries[i].v)] = [i \in 1..Len(d.recs) |-> NormVal(ProjD(d.recs[i].v))]
                     THEN "columns" ELSE "records"}
                    \cup (IF EntN(g.entries) # BumpRecs(RecN(d.recs)) THEN {"columns_other"} ELSE {})
                  ELSE {})
            \* rendering never fails, keeps the source as first line, shows every recorded value
            \cup (IF "reportpanic" \in DOMAIN g THEN {"reportfails"} ELSE {})
            \cup (IF g.class \in {"value", "fail"} /\ "reportpanic" \notin DOMAIN g /\ ~ReportOK(o.src, RecN(d.recs), g.report) THEN {"report"} ELSE {})
            \* the public entry point: same value or failure, and a report that shows the records
            \cup (IF o.pub.class = "panic" THEN {"pubpanic"} ELSE {})
            \cup (IF o.pub.class \in {"value", "error"} /\ pre = <<>> /\ d.st = "ok" /\ ~(o.pub.class = "value" /\ NormVal(o.pub.v) = NormVal(ProjD(d.v))) THEN {"pubsame"} ELSE {})
            \cup (IF o.pub.class \in {"value", "error"} /\ pre = <<>> /\ d.st = "fail" /\ o.pub.class # "error" THEN {"pubsame"} ELSE {})
            \cup (IF o.pub.class \in {"value", "error"} /\ pre = <<>> /\ ~ReportOK(o.src, RecN(d.recs), o.pub.report) THEN {"pubreport"} ELSE {})
            \* ... and twice in a row with map environments differing in the type of an unused name
            \cup (IF "pub2" \in DOMAIN o /\ o.pub2.class = "panic" THEN {"pubpanic"} ELSE {})
            \cup (IF "pub2" \in DOMAIN o /\ o.pub2.class = "ran" /\ pre = <<>> /\
                     \E r \in {o.pub2.a, o.pub2.b} :
                        \/ d.st = "ok" /\ ~(r.class = "value" /\ NormVal(r.v) = NormVal(ProjD(d.v)))
                        \/ d.st = "fail" /\ r.class # "error"
                        \/ ~ReportOK(o.src, RecN(d.recs), r.report)
                   THEN {"pubsame2"} ELSE {})
Init == st \in {[c |-> c, l |-> ChunkLo(c, N)] : c \in 1..NChunks}
Next == /\ st.l <= ChunkHi(st.c, N)
        /\ EmitVerdict(Obs[st.l].id, Judge(Obs[st.l]), "")
        /\ st' = [st EXCEPT !.l = @ + 1]
=============================================================================
