package main

// Syntax trees: JSON (specification shape) <-> yae ast.Expr, and rendering of a
// core tree to source text.

import (
	"fmt"
	"math"
	"strconv"
	"strings"
	"unicode/utf8"

	"github.com/goghcrow/yae/parser/ast"
	"github.com/goghcrow/yae/parser/oper"
	"github.com/goghcrow/yae/parser/pos"
)

// astJ projects a (desugared or raw) tree to the specification's shape.
// withPos adds "pos":[idx,end,line,col] and, where the code has one, "dc" (debug column).
func astJ(e ast.Expr, withPos bool) J {
	j := astJ0(e, withPos)
	if withPos && e != nil {
		p := e.Position()
		j["pos"] = A{p.Idx, p.IdxEnd, p.Line, p.Col}
	}
	return j
}

func astJ0(x ast.Expr, wp bool) J {
	switch e := x.(type) {
	case nil:
		return J{"k": "nil"}
	case *ast.StrExpr:
		return J{"k": "str", "v": cps(e.Val)}
	case *ast.NumExpr:
		return J{"k": "num", "v": numJ(e.Val)}
	case *ast.TimeExpr:
		return J{"k": "time", "v": int(e.Val)}
	case *ast.BoolExpr:
		return J{"k": "bool", "v": e.Val}
	case *ast.ListExpr:
		els := A{}
		for _, el := range e.Elems {
			els = append(els, astJ(el, wp))
		}
		return J{"k": "list", "els": els}
	case *ast.MapExpr:
		ps := A{}
		for _, p := range e.Pairs {
			ps = append(ps, J{"key": astJ(p.Key, wp), "val": astJ(p.Val, wp)})
		}
		return J{"k": "map", "ps": ps}
	case *ast.ObjExpr:
		fs := A{}
		for _, f := range e.Fields {
			fs = append(fs, J{"n": cps(f.Name), "v": astJ(f.Val, wp)})
		}
		return J{"k": "obj", "fs": fs}
	case *ast.IdentExpr:
		return J{"k": "id", "n": cps(e.Name)}
	case *ast.CallExpr:
		args := A{}
		for _, a := range e.Args {
			args = append(args, astJ(a, wp))
		}
		j := J{"k": "call", "f": astJ(e.Callee, wp), "args": args}
		if wp {
			j["dc"] = int(e.DBGCol)
		}
		return j
	case *ast.SubscriptExpr:
		j := J{"k": "sub", "x": astJ(e.Var, wp), "i": astJ(e.Idx, wp)}
		if wp {
			j["dc"] = int(e.DBGCol)
		}
		return j
	case *ast.MemberExpr:
		j := J{"k": "mem", "x": astJ(e.Obj, wp), "n": cps(e.Field.Name)}
		if wp {
			j["dc"] = int(e.DBGCol)
			fp := e.Field.Pos
			j["npos"] = A{fp.Idx, fp.IdxEnd, fp.Line, fp.Col}
		}
		return j
	case *ast.UnaryExpr:
		j := J{"k": "un", "op": cps(e.Name), "e": astJ(e.LHS, wp), "prefix": e.Prefix}
		if wp {
			op := e.IdentExpr.Pos
			j["oppos"] = A{op.Idx, op.IdxEnd, op.Line, op.Col}
		}
		return j
	case *ast.BinaryExpr:
		fix := map[oper.Fixity]string{oper.INFIX_L: "L", oper.INFIX_R: "R", oper.INFIX_N: "N"}[e.Fixity]
		j := J{"k": "bin", "op": cps(e.Name), "fix": fix, "l": astJ(e.LHS, wp), "r": astJ(e.RHS, wp)}
		if wp {
			op := e.IdentExpr.Pos
			j["oppos"] = A{op.Idx, op.IdxEnd, op.Line, op.Col}
		}
		return j
	case *ast.TenaryExpr:
		j := J{"k": "tern", "op": cps(e.Name), "l": astJ(e.Left, wp), "m": astJ(e.Mid, wp), "r": astJ(e.Right, wp)}
		if wp {
			op := e.IdentExpr.Pos
			j["oppos"] = A{op.Idx, op.IdxEnd, op.Line, op.Col}
		}
		return j
	case *ast.GroupExpr:
		return J{"k": "group", "e": astJ(e.SubExpr, wp)}
	}
	return J{"k": "unknown-node"}
}

// astFromJ builds a core ast.Expr directly (positions unknown)
func astFromJ(j J) ast.Expr {
	u := pos.Unknown
	switch j["k"] {
	case "num":
		f := numFromJ(obj(j["v"]))
		return &ast.NumExpr{Pos: u, Text: numLit(f), Val: f}
	case "str":
		s := str(j["v"])
		return &ast.StrExpr{Pos: u, Text: strLit(s), Val: s}
	case "bool":
		if boolv(j["v"]) {
			return ast.True(u)
		}
		return ast.False(u)
	case "time":
		ts := int64(toInt(j["v"]))
		return &ast.TimeExpr{Pos: u, Text: fmt.Sprintf("'@%d'", ts), Val: ts}
	case "list":
		els := []ast.Expr{}
		for _, e := range arr(j["els"]) {
			els = append(els, astFromJ(obj(e)))
		}
		return ast.List(els, u)
	case "map":
		ps := []ast.Pair{}
		for _, p := range arr(j["ps"]) {
			ps = append(ps, ast.Pair{Key: astFromJ(obj(obj(p)["key"])), Val: astFromJ(obj(obj(p)["val"]))})
		}
		return ast.Map(ps, u)
	case "obj":
		fs := []ast.Field{}
		for _, f := range arr(j["fs"]) {
			fs = append(fs, ast.Field{Name: str(obj(f)["n"]), Val: astFromJ(obj(obj(f)["v"]))})
		}
		return ast.Obj(fs, u)
	case "id":
		return ast.Var(str(j["n"]), u)
	case "call":
		args := []ast.Expr{}
		for _, a := range arr(j["args"]) {
			args = append(args, astFromJ(obj(a)))
		}
		return ast.Call(astFromJ(obj(j["f"])), args, pos.UnknownCol, u)
	case "sub":
		return ast.Subscript(astFromJ(obj(j["x"])), astFromJ(obj(j["i"])), pos.UnknownCol, u)
	case "mem":
		return ast.Member(astFromJ(obj(j["x"])), ast.Var(str(j["n"]), u), pos.UnknownCol, u)
	}
	panic(fmt.Sprintf("astFromJ: %v", j["k"]))
}

// ---------------------------------------------------------------- rendering to source
func numLit(f float64) string {
	if f < 0 || math.IsNaN(f) || math.IsInf(f, 0) {
		panic(fmt.Sprintf("number %v has no literal form", f))
	}
	s := strconv.FormatFloat(f, 'f', -1, 64)
	back, err := strconv.ParseFloat(s, 64)
	if err != nil || back != f {
		panic("literal does not round-trip: " + s)
	}
	return s
}

// a double-quoted literal that the lexer admits and strconv.Unquote decodes to s
func strLit(s string) string {
	var b strings.Builder
	b.WriteByte('"')
	for _, r := range s {
		switch {
		case r == '"':
			b.WriteString(`\"`)
		case r == '\\':
			b.WriteString(`\\`)
		case r == '\n':
			b.WriteString(`\n`)
		case r == '\t':
			b.WriteString(`\t`)
		case r == '\r':
			b.WriteString(`\r`)
		case r == '\b':
			b.WriteString(`\b`)
		case r == '\f':
			b.WriteString(`\f`)
		case r < 32 || r == 127:
			fmt.Fprintf(&b, `\u%04x`, r)
		case r == utf8.RuneError:
			panic("invalid rune in string")
		default:
			b.WriteRune(r)
		}
	}
	b.WriteByte('"')
	out := b.String()
	back, err := strconv.Unquote(out)
	if err != nil || back != s {
		panic("string literal does not round-trip: " + out)
	}
	return out
}

var identLike = func(s string) bool { return oper.IsIdentOp(s) }
var kwOps = map[string]bool{"and": true, "or": true, "not": true}

func atomicNode(j J, style int) bool {
	switch j["k"] {
	case "num", "str", "bool", "time", "list", "map", "obj", "id":
		return true
	case "call":
		f := obj(j["f"])
		if f["k"] == "id" && str(f["n"]) == "if" && style&1 != 0 && len(arr(j["args"])) == 3 {
			return false // rendered as c ? a : b
		}
		return f["k"] == "id" && identLike(str(f["n"])) && !kwOps[str(f["n"])]
	case "sub", "mem":
		return true
	}
	return false
}

func paren(j J, style int) string {
	s := renderSrc(j, style)
	if atomicNode(j, style) {
		return s
	}
	return "(" + s + ")"
}

// renderSrc renders a core tree as source text.  Compound operands are always
// parenthesised (precedence itself is C08's business).  style bit 0: `if` as ?:,
// bit 1: method-call sugar for identifier-named calls with >= 1 argument,
// bit 2: five blanks around binary operators, bit 3: none (symbolic operators only).
func opGap(name string, style int) string {
	switch {
	case style&4 != 0:
		return "     "
	case style&8 != 0 && !kwOps[name]:
		return ""
	}
	return " "
}

func renderSrc(j J, style int) string {
	switch j["k"] {
	case "num":
		return numLit(numFromJ(obj(j["v"])))
	case "str":
		return strLit(str(j["v"]))
	case "bool":
		if boolv(j["v"]) {
			return "true"
		}
		return "false"
	case "time":
		return fmt.Sprintf("'@%d'", toInt(j["v"]))
	case "list":
		xs := []string{}
		for _, e := range arr(j["els"]) {
			xs = append(xs, renderSrc(obj(e), style))
		}
		return "[" + strings.Join(xs, ", ") + "]"
	case "map":
		ps := arr(j["ps"])
		if len(ps) == 0 {
			return "[:]"
		}
		xs := []string{}
		for _, p := range ps {
			xs = append(xs, renderSrc(obj(obj(p)["key"]), style)+": "+renderSrc(obj(obj(p)["val"]), style))
		}
		return "[" + strings.Join(xs, ", ") + "]"
	case "obj":
		xs := []string{}
		for _, f := range arr(j["fs"]) {
			xs = append(xs, str(obj(f)["n"])+": "+renderSrc(obj(obj(f)["v"]), style))
		}
		return "{" + strings.Join(xs, ", ") + "}"
	case "id":
		return str(j["n"])
	case "sub":
		return paren(obj(j["x"]), style) + "[" + renderSrc(obj(j["i"]), style) + "]"
	case "mem":
		return paren(obj(j["x"]), style) + "." + str(j["n"])
	case "call":
		f := obj(j["f"])
		args := arr(j["args"])
		// (each operand is rendered exactly once: rendering twice would be exponential in the depth)
		plain := func() []string {
			as := []string{}
			for _, a := range args {
				as = append(as, renderSrc(obj(a), style))
			}
			return as
		}
		if f["k"] != "id" {
			// dynamic call: the parentheses keep `o.g(x)` from being read as method sugar
			return "(" + renderSrc(f, style) + ")(" + strings.Join(plain(), ", ") + ")"
		}
		name := str(f["n"])
		if identLike(name) && !kwOps[name] {
			if name == "if" && style&1 != 0 && len(args) == 3 {
				g := opGap("?", style)
				return paren(obj(args[0]), style) + g + "?" + g + paren(obj(args[1]), style) + g + ":" + g + paren(obj(args[2]), style)
			}
			if style&2 != 0 && len(args) >= 1 {
				rest := []string{}
				for _, a := range args[1:] {
					rest = append(rest, renderSrc(obj(a), style))
				}
				return paren(obj(args[0]), style) + "." + name + "(" + strings.Join(rest, ", ") + ")"
			}
			return name + "(" + strings.Join(plain(), ", ") + ")"
		}
		switch len(args) {
		case 1:
			return name + " " + paren(obj(args[0]), style)
		case 2:
			g := opGap(name, style)
			return paren(obj(args[0]), style) + g + name + g + paren(obj(args[1]), style)
		}
		panic("operator call with arity " + strconv.Itoa(len(args)) + " has no source form")
	}
	panic(fmt.Sprintf("renderSrc: %v", j["k"]))
}
