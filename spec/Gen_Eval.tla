---------------------------- MODULE Gen_Eval ----------------------------
(***************************************************************************)
(* Evaluation family, Mode A + case generation.  Every case state is one   *)
(* program of a bounded universe together with the specification's own    *)
(* Run (check + big-step evaluation) in the standard environment; the      *)
(* invariants are the properties on the specification (preservation,       *)
(* progress, ...); every state is also written out as a case that the Go   *)
(* harness runs through the real pipeline.                                 *)
(*   P_MODE = "envs"  emit the standard environments (for the harness)     *)
(*            "u1"    all trees with one operator node                     *)
(*            "u2"    two operator nodes: a well-typed u1 tree in one      *)
(*                    operand position of a second operator                *)
(*   P_SIZE = 1 small leaf set / 2 full leaf set                           *)
(***************************************************************************)
EXTENDS YaeUniverse2, YaeVM, YaeIO

VARIABLE st
EnvId == "E1"
Env == InEnv(StdEnvIn(EnvId))
Pre == StdPre(EnvId)
L == IF P_SIZE >= 2 THEN LeavesFull ELSE LeavesSmall

\* a universe element is a tree (environment E1) or [e, envid]
MkCase(x) == IF P_MODE = "bcbig" THEN [e |-> x, envid |-> EnvId, big |-> TRUE, run |-> [acc |-> FALSE, why |-> "not evaluated here"]]
             ELSE IF "style" \in DOMAIN x
             THEN [e |-> x.e, envid |-> x.envid, style |-> x.style, run |-> Run2(x.e, InEnv(StdEnvIn(x.envid)), StdPre(x.envid), StdPost(x.envid))]
             ELSE IF "envid" \in DOMAIN x
             THEN [e |-> x.e, envid |-> x.envid, run |-> Run2(x.e, InEnv(StdEnvIn(x.envid)), StdPre(x.envid), StdPost(x.envid))]
             ELSE [e |-> x, envid |-> EnvId, run |-> Run(x, Env, Pre)]
IsCase == "run" \in DOMAIN st

AllU1(LL) == Concat([i \in 1..Len(Names1) |-> Calls1f(Names1[i], LL)])
               \o Concat([i \in 1..Len(Names2) |-> Calls2f(Names2[i], LL, LL)])
               \o Lits1(LL) \o Access1(LL)
AllU1c3(LL) == Concat([i \in 1..Len(Names3) |-> Calls3f(Names3[i], LL, LL, LL)])
WellTyped(e) == Check(e, TEnvOf(Env), FunTable(Pre)).ok
\* operand sequence for u2: one operand is a well-typed one-operator tree, the others are leaves
Ops == IF P_MODE = "u2" THEN SelectSeq(AllU1(LeavesSmall), WellTyped) ELSE <<>>
U2 == IF P_MODE # "u2" THEN <<>> ELSE
      Concat([i \in 1..Len(Names1) |-> Calls1f(Names1[i], Ops)])
        \o Concat([i \in 1..Len(Names2) |-> Calls2f(Names2[i], Ops, L) \o Calls2f(Names2[i], L, Ops)])
        \o Concat([i \in 1..Len(Names3) |-> Calls3f(Names3[i], L, Ops, L) \o Calls3f(Names3[i], L, L, Ops) \o Calls3f(Names3[i], Ops, L, L)])
        \o Prod2(Ops, L, LAMBDA a, b : EList(<<a, b>>)) \o Prod2(L, Ops, LAMBDA a, b : EList(<<a, b>>))
        \o Prod2(L, Ops, LAMBDA a, b : EMap(<<EPair(a, b)>>))
        \o Prod2(Ops, L, LAMBDA a, b : EObj(<<EFld(N_a, a), EFld(N_b, b)>>))
        \o Prod2(Ops, L, LAMBDA a, b : ESub(a, b)) \o Prod2(L, Ops, LAMBDA a, b : ESub(a, b))
        \o Prod2(Ops, FieldPool, LAMBDA a, n : EMem(a, n))

(* The universe of the selected mode: a constant, so TLC computes it once at start-up
   (it evaluates constant definitions eagerly -- hence the guards on P_MODE).        *)
Universe ==
  CASE P_MODE = "u1" -> AllU1(L) \o AllU1c3(L)
    [] P_MODE = "u2" -> U2
    [] P_MODE = "objs" -> ObjProgs
    [] P_MODE = "partial" -> PartialProgs(P_SIZE)
    [] P_MODE = "builtins" -> BuiltinProgs(P_SIZE)
    [] P_MODE = "specials" -> SpecialProgs
    [] P_MODE = "sizes" -> SizeProgs
    [] P_MODE = "bcbig" -> BcBigProgs(P_SIZE)
    [] P_MODE = "lazy" -> LazyProgs
    [] P_MODE = "opt" -> OptProgs
    [] P_MODE = "over" -> OverProgs
    [] P_MODE = "bc" -> BcProgs
    [] P_MODE = "same" -> SameProgs
    [] P_MODE = "dbg" -> DbgProgs
    [] P_MODE = "dbg2" -> DbgProgs2(P_SIZE)
    [] OTHER -> <<>>
NU == Len(Universe)
NSeeds == 64
SeedLo(i) == ((i - 1) * NU) \div NSeeds + 1
SeedHi(i) == (i * NU) \div NSeeds

Init == st \in IF P_MODE = "envs" THEN {[seed |-> 0]} ELSE {[seed |-> i] : i \in 1..NSeeds}
Next == /\ "seed" \in DOMAIN st
        /\ IF st.seed = 0 THEN st' = [envs |-> TRUE]
           ELSE \E j \in SeedLo(st.seed)..SeedHi(st.seed) : st' = MkCase(Universe[j])

Emit ==
  /\ IsCase => EmitCase(IF "big" \in DOMAIN st THEN [fam |-> "eval", e |-> st.e, envid |-> st.envid, big |-> TRUE]
                         ELSE IF "style" \in DOMAIN st THEN [fam |-> "eval", e |-> st.e, envid |-> st.envid, style |-> st.style]
                                                    ELSE [fam |-> "eval", e |-> st.e, envid |-> st.envid])
  /\ "envs" \in DOMAIN st => \A i \in 1..Len(EnvIds) :
        EmitCase([envid |-> EnvIds[i], env |-> StdEnvIn(EnvIds[i]), pre |-> StdPre(EnvIds[i]), post |-> StdPost(EnvIds[i])])

(* ---- the properties, on the specification (Mode A) ---- *)
Acc == IsCase /\ st.run.acc
\* C01: a produced value has the inferred type, deeply, with no absent component
Preservation == Acc /\ st.run.r.st = "ok" => HasType(st.run.r.v, st.run.ty)
\* C02: a checked program in a conforming environment never gets stuck, and fails only
\* through the four partial operations
Progress == Acc => st.run.r.st \in {"ok", "fail", "ood"}
FailsOnlyPartially == Acc /\ st.run.r.st = "fail" => st.run.r.why \in {"index", "key", "mod0", "regex"}
\* C05 (algorithm side): the inferred type is slot-free (fully concrete)
TypeConcrete == Acc => SlotFree(st.run.ty)
(* ---- the bytecode back end against the big-step semantics (C03, C11; cfg Gen_EvalVM) ---- *)
CaseFuns == FunTable2(StdPre(st.envid), StdPost(st.envid))
CaseEnv == InEnv(StdEnvIn(st.envid))
BC == CompileBC(st.run.e, CaseFuns)
\* C03: the VM produces the value / failure and the host-call log of the big-step semantics;
\* compilation is refused only when an operand exceeds its encoding width
VMRefinesEval ==
  Acc /\ st.run.r.st \in {"ok", "fail"} =>
    LET bc == BC IN
    /\ bc.ok
    /\ LET o == VMOutcome(bc, CaseEnv) IN
       /\ o.st = st.run.r.st
       /\ (o.st = "ok" => o.out.v = st.run.r.v)
       /\ (o.st = "fail" => o.out.why = st.run.r.why)
       /\ o.log = st.run.r.log
\* C11: what the compilation scheme emits is structurally safe
BytecodeVerifies == Acc => LET bc == BC IN bc.ok => VerifyBC(bc.code, bc.pool) = {}
\* C11 corollary: a run needs at most one step per emitted instruction and frame activation
\* (jumps go forward only), so it cannot loop
StepsBounded ==
  Acc /\ st.run.r.st \in {"ok", "fail"} =>
    LET bc == BC
        o == VMOutcome(bc, CaseEnv)
        acts == {<<i, o.trace[i].b>> : i \in {j \in 1..Len(o.trace) : o.trace[j].pc = 0}} IN
    \* every activation of a body executes each of its offsets at most once
    \A i, j \in 1..Len(o.trace) : i < j /\ o.trace[i].b = o.trace[j].b /\ o.trace[i].pc = o.trace[j].pc
        => \E k \in (i + 1)..j : o.trace[k].b = o.trace[i].b /\ o.trace[k].pc = 0

\* C18: on every pair program the notions agree (all components of the result list are the same boolean)
IsSameProg(e) == e.k = "list" /\ Len(e.els) >= 5 /\ e.els[1].k = "call" /\ e.els[1].f.k = "id" /\ e.els[1].f.n = N_eqeq
FourNotionsAgree ==
  IsCase /\ P_MODE = "same" /\ st.run.acc /\ st.run.r.st = "ok" /\ IsSameProg(st.e) /\ ~InBandPair(st.e) =>
     \A i \in 1..Len(st.run.r.v.els) : st.run.r.v.els[i].v = st.run.r.v.els[1].v

\* the standard environment conforms
EnvConforms == ConformingEnv(Env)
=============================================================================
