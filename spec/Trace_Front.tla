---------------------------- MODULE Trace_Front ----------------------------
(***************************************************************************)
(* Mode C for the front end (C08, C09, C12): tokens, tree with spans and   *)
(* eat count recorded from the real lexer and parser are compared with the *)
(* specification's, and the declarative properties are re-evaluated on the *)
(* OBSERVED tokens and tree.                                               *)
(***************************************************************************)
EXTENDS YaeParser, YaeIO

Obs == ObsLoaded
N == Len(Obs)
VARIABLE st

Judge(rec) ==
  LET o == rec.obs
      died == "died" \in DOMAIN o
      lx == Lex(rec.ops, rec.src)
      pr == IF lx.ok THEN Parse(rec.ops, lx.toks) ELSE [ok |-> FALSE, why |-> "lex", st |-> [i |-> 1, eats |-> 0]]
      ood == ~pr.ok /\ pr.why = "ood" IN
  IF died THEN {"total"} ELSE
  \* ---- lexing (C09)
  (IF o.lex.ok # lx.ok THEN {"lexaccept"} ELSE {})
  \cup (IF o.lex.ok /\ lx.ok /\ o.lex.toks # lx.toks THEN {"tokens"} ELSE {})
  \* the property on the observed tokens, whatever the specification's lexer says
  \cup (IF o.lex.ok /\ ~TokensPartition(rec.src, o.lex.toks) THEN {"partition"} ELSE {})
  \cup (IF o.lex.ok /\ TokensPartition(rec.src, o.lex.toks) /\ ~PositionsExact(rec.src, o.lex.toks) THEN {"positions"} ELSE {})
  \cup (IF o.lex.ok /\ ~LongestOperator(rec.ops, rec.src, o.lex.toks) THEN {"longest"} ELSE {})
  \cup (IF o.lex.ok /\ ~WholeWords(rec.ops, rec.src, o.lex.toks) THEN {"wholeword"} ELSE {})
  \cup (IF o.lex.ok /\ ~DotQuestionWhole(rec.ops, rec.src, o.lex.toks) THEN {"dotquestion"} ELSE {})
  \* ---- parsing (C08), only when both lexers agree on the tokens
  \cup (IF o.lex.ok /\ lx.ok /\ o.lex.toks = lx.toks /\ ~ood THEN
          (IF o.parse.ok # pr.ok THEN {"parseaccept"} ELSE {})
          \cup (IF o.parse.ok /\ pr.ok /\ StripPos(o.parse.tree) # StripPos(pr.node) THEN {"tree"} ELSE {})
          \cup (IF o.parse.ok /\ pr.ok /\ StripPos(o.parse.tree) = StripPos(pr.node) /\ o.parse.tree # pr.node THEN {"spans"} ELSE {})
          \cup (IF o.parse.ok /\ ~NoNonAssocChain(o.parse.tree) THEN {"nonassoc"} ELSE {})
          \* C12: the deterministic amount of parser work
          \cup (IF o.parse.eats # pr.st.eats THEN {"eats"} ELSE {})
          \cup (IF o.parse.eats > 4 * (Len(lx.toks) + 1) * (Len(lx.toks) + 1) THEN {"eatsbound"} ELSE {})
        ELSE {})

Skip(rec) == ""
Init == st \in {[c |-> c, l |-> ChunkLo(c, N)] : c \in 1..NChunks}
Next == /\ st.l <= ChunkHi(st.c, N)
        /\ EmitVerdict(Obs[st.l].id, Judge(Obs[st.l]), Skip(Obs[st.l]))
        /\ st' = [st EXCEPT !.l = @ + 1]
=============================================================================
