"""One function per property: which specification roots are model-checked, which
cases are generated / explored, which trace root judges them, which conjuncts of
the verdict belong to the property."""
import json, os

import vf, core, matchers
from core import Run, finish

PROPS = {}
REPLAY = {}      # prop -> (family, trace module, relevant conjuncts)
REPLAY_OPTS = {}  # prop -> dict(cfg=trace cfg, race=bool, repeat=n re-executions (schedule-dependent families))
TRACE_CFG = {"Trace_Api": "TraceT.cfg", "Trace_Sql": "TraceT.cfg", "Trace_Conc": "TraceT.cfg"}


def prop(pid, family=None, module=None, relevant=None):
    def deco(fn):
        PROPS[pid] = fn
        if family:
            REPLAY[pid] = (family, module, relevant)
        return fn
    return deco


def replay(pid, path, seed):
    """re-runs one recorded case: harness in a fresh worker, TLC judges it"""
    data = json.load(open(path))
    family, module, relevant = data["family"], data["trace_module"], REPLAY.get(pid, (None, None, None))[2]
    run = Run(pid, "quick", seed)
    rec = {k: v for k, v in data["record"].items() if k not in ("obs", "_why")}
    opts = REPLAY_OPTS.get(pid, {})
    recs = []
    for i in range(opts.get("repeat", 1)):
        r = dict(rec)
        r["id"] = i + 1
        r["oseed"] = seed * 1000 + i
        recs.append(r)
    cases = os.path.join(vf.scratch(), "replay.ndjson")
    vf.write_ndjson(cases, recs)
    obs = run.replay(family, cases=cases, name="replay", jobs=1, race=opts.get("race", False))
    verdicts = run.validate(module, obs, chunks=1, cfg=TRACE_CFG.get(module, "Trace.cfg"))
    why, o = set(), None
    for cand in vf.read_ndjson(obs):          # (schedule-dependent families: the first rejected re-execution)
        w = core.filter_why(verdicts[cand["id"]]["why"], relevant)
        if o is None or (w and not why):
            why, o = w, cand
    o["_why"] = sorted(why)
    print(json.dumps(dict(observed=o["obs"], rejected_conjuncts=sorted(why)), indent=1)[:6000])
    if why:
        fid = matchers.match(pid, o)
        if fid:
            print("KNOWN-FINDING: property=%s %s [%s]" % (pid, matchers.FINDINGS[fid]["what"], fid))
            return 0
        print("VIOLATION property=%s replay=%s" % (pid, path))
        return 1
    print("replay accepted by the specification: no violation")
    return 0


# ---------------------------------------------------------------------------- C17
C17_REL = None   # every conjunct of Trace_Types belongs to C17


@prop("C17", "unify", "Trace_Types", C17_REL)
def c17(tier, seed):
    run = Run("C17", tier, seed)
    thorough = tier == "thorough"
    key = lambda r: json.dumps([r["x"], r["y"], r.get("shared", False)], sort_keys=True)
    nontriv = lambda r: r["x"]["k"] not in ("num", "str", "bool", "time") and r["y"]["k"] not in ("num", "str", "bool", "time")
    # Mode A + B: all ordered pairs of depth<=1 types; patterns x ground instances
    sets = [("pairs", 2 if thorough else 1), ("pp", 1), ("patterns", 2 if thorough else 1)]
    base = 0
    for mode, size in sets:
        cases, n = run.generate("Gen_Types", "Gen_Types.cfg", mode=mode, size=size, idbase=base)
        base += n
        obs = run.replay("unify", cases=cases, name="unify_" + mode)
        verdicts = run.validate("Trace_Types", obs)
        run.triage("unify", "Trace_Types", obs, verdicts, C17_REL, key=key, nontrivial=nontriv)
    # Mode C: seeded deeper pairs incl. shared sub-term pointers
    n = 200000 if thorough else 20000
    obs = run.replay("unify", explore=n, name="unify_explore", idbase=base)
    verdicts = run.validate("Trace_Types", obs)
    run.triage("unify", "Trace_Types", obs, verdicts, C17_REL, key=key, nontrivial=nontriv)
    run.bounds = dict(pairs="all ordered pairs of depth<=1 types over %d atoms" % (8 if thorough else 5),
                      patterns="all 2-tuples of depth<=1 patterns over {num,'a,'b} x all 2-tuples over %d ground types; pp: all 2-tuples over 8 patterns on both sides" % (11 if thorough else 6),
                      explore="%d seeded pairs of depth<=3 (instances, mutated instances, shared variables, 1/4 with shared sub-term pointers)" % n)
    return finish(run, "model_checking",
                  "cases: TLC enumerates the type-pair universes (each state one pair, laws checked as invariants) "
                  "and the harness adds seeded deeper pairs; every pair is run through types.Equals / types.Unify and "
                  "TLC judges the observation. distinct = distinct (x, y, shared) triples; non-trivial = neither side a primitive",
                  assumptions=["TLC's evaluation of the TLA+ operators is trusted", "pairs beyond depth 3 are not sampled"],
                  exhaustive=False)


# ---------------------------------------------------------------------------- evaluation family
BACKENDS = ("vm", "vmct", "closure", "interp")


def per_backend(*names):
    return {"%s_%s" % (n, b) for n in names for b in BACKENDS}


EVAL_REL = {
    # C01 preservation: the produced value has the inferred type, deeply; a back end dying of a wrong cast counts
    "C01": per_backend("hastype") | {"total"},
    # C02 progress: only documented failures, exactly when the semantics says so, never an internal fault
    "C02": per_backend("nofault", "failclass", "nofail", "specstuck") | {"total"},
    # C03 back ends agree with each other (and with the specification's outcome and log)
    "C03": per_backend("value", "log", "failclass", "nofail", "accept") | {"agree", "agree_vmct", "total"},
    # C04 documented results
    "C04": per_backend("value", "render") | {"front"},
    # C05 accept exactly the well-typed programs, infer the rule's type, reject at compile time
    "C05": per_backend("accept", "value") | {"accept", "type"},   # value: WHICH overload a call resolved to
    # C06 laziness and order: host-call log and outcome
    "C06": per_backend("log", "value", "failclass", "nofail"),
    "C13": {"stdout"},
    # C18: ==, rendering, key identity and set membership agree; canonical rendering
    "C18": per_backend("sameness", "render", "value", "nofail") | {"agree", "agree_vmct"},
    "C16": per_backend("accept", "value", "failclass", "nofail", "nofault", "hastype") | {"accept", "total"},
}


def eval_key(r):
    return json.dumps([r.get("e"), r.get("envid"), r.get("env"), r.get("pre"), r.get("style"), r.get("via")], sort_keys=True)


def eval_nontrivial(r):
    """accepted by the checker and containing at least one call or composite literal"""
    o = r.get("obs", {})
    return bool(o.get("infer", {}).get("acc")) and r["e"]["k"] in ("call", "sub", "mem", "list", "map", "obj")


def eval_stage(run, pid, modes, explore=0, explore_mode="", relevant=None):
    rel = relevant if relevant is not None else EVAL_REL[pid]
    base = 0
    for module, cfg, mode, size in modes:
        cases, n = run.generate(module, cfg, mode=mode, size=size, idbase=base)
        base += n
        obs = run.replay("eval", cases=cases, name="eval_%s_%s" % (mode, size))
        verdicts = run.validate("Trace_Eval", obs, shard=3000, parallel=12, heap="3g")
        run.triage("eval", "Trace_Eval", obs, verdicts, rel, key=eval_key, nontrivial=eval_nontrivial)
    if explore:
        obs = run.replay("eval", explore=explore, mode=explore_mode, name="eval_explore", idbase=base)
        verdicts = run.validate("Trace_Eval", obs, shard=400, parallel=12, heap="3g")
        run.triage("eval", "Trace_Eval", obs, verdicts, rel, key=eval_key, nontrivial=eval_nontrivial)


EVAL_RULE = ("cases: TLC enumerates bounded program universes (each state one program with the specification's own "
             "check + big-step evaluation; the property is an invariant of those states) and the harness adds seeded "
             "generated programs; every program goes source text -> real lexer/parser/desugarer/checker -> all four back ends; "
             "TLC judges each recorded observation (front-end tree, acceptance, type, deep value projection, failure class, "
             "host-call log). distinct = distinct (program, environment, user functions, notation); non-trivial = accepted "
             "by the checker and rooted in a call, access or composite literal")
EVAL_ASSUME = ["TLC's evaluation of the TLA+ operators is trusted",
               "numbers are judged only on the exact domain of YaeNum (dyadic rationals, tolerance-edge offsets, "
               "exact big integers, inf/nan); records outside it are counted but their value conjuncts are not judged"]


def eval_prop(pid, quick_modes, thorough_modes, quick_explore=0, thorough_explore=0, explore_mode=""):
    def fn(tier, seed):
        run = Run(pid, tier, seed)
        thorough = tier == "thorough"
        modes = thorough_modes if thorough else quick_modes
        eval_stage(run, pid, modes, explore=thorough_explore if thorough else quick_explore, explore_mode=explore_mode)
        if pid in ("C01", "C16"):
            # the host-data half: what conv hands to the evaluator is well formed and of the type it reports
            # (C01: no component of another type than its container declares; C16: absent parts are Nothing of the right type)
            conv_stage(run, pid, rel=lambda why: {w for w in why if w.split("_")[0] in
                                                  ("wellformed", "valtype", "convok", "faithful", "type", "typeok", "panic")})
        run.bounds = dict(universes=[dict(root=m[0], mode=m[2], size=m[3]) for m in modes],
                          explore=thorough_explore if thorough else quick_explore)
        return finish(run, "model_checking", EVAL_RULE, assumptions=EVAL_ASSUME)
    PROPS[pid] = fn
    REPLAY[pid] = ("eval", "Trace_Eval", EVAL_REL[pid])


G = ("Gen_Eval", "Gen_Eval.cfg")
U1S, U1F, U2 = G + ("u1", 1), G + ("u1", 2), G + ("u2", 1)
OBJS, PARTIAL, LAZY, OPT = G + ("objs", 1), G + ("partial", 1), G + ("lazy", 1), G + ("opt", 1)
PARTIAL2 = G + ("partial", 2)
BI1, BI2 = G + ("builtins", 1), G + ("builtins", 2)
OVER = G + ("over", 1)
SPEC = G + ("specials", 1)      # IEEE corners: NaN, infinities, the two zeros
SIZES = G + ("sizes", 1)        # composite values and nesting depths around the VM stack's initial capacity and growth
# explore: seeded type-directed programs of depth <= 5 from the harness (gen_prog.go), judged by TLC like the others
eval_prop("C01", [OBJS, LAZY, OPT, SIZES], [OBJS, LAZY, OPT, SIZES, U1F, U2], 1200, 40000, "deep")
eval_prop("C02", [PARTIAL, LAZY, OPT, SPEC, SIZES], [PARTIAL2, LAZY, OPT, SPEC, SIZES, OBJS, U1F], 1200, 40000, "deep")
eval_prop("C04", [BI1], [BI2, PARTIAL, U1F], 0, 20000, "deep")
eval_prop("C05", [U1S, OVER, OBJS], [U1F, U2, OPT, OBJS, OVER], 1200, 40000, "deep")
eval_prop("C06", [LAZY, PARTIAL], [LAZY, PARTIAL, U1F], 1200, 40000, "deep")
eval_prop("C16", [OPT], [OPT, U1F])
SAME = G + ("same", 1)
eval_prop("C18", [SAME], [SAME, BI2, OBJS])


# ---------------------------------------------------------------------------- bytecode back end (C03, C11)
VM_REL = {
    "C11": None,   # filled below: every verify_* conjunct + loops
    "C03": {"steps", "vmvalue", "vmfail", "vmlog", "vmstuck", "refines", "refineslog", "total", "refused", "accepted"},
}
GV = ("Gen_Eval", "Gen_EvalVM.cfg")


def vm_rel(pid, why):
    if pid == "C11":
        return {w for w in why if w.startswith("verify_") or w in ("loops", "vmstuck")}
    return set(why) & VM_REL["C03"]


def vm_stage(run, pid, modes, explore=0):
    base = 0
    rel = lambda why: vm_rel(pid, why)
    for module, cfg, mode, size in modes:
        cases, n = run.generate(module, cfg, mode=mode, size=size, idbase=base)
        base += n
        big = mode == "bcbig"
        obs = run.replay("vm", cases=cases, name="vm_%s_%s" % (mode, size), budget=180000 if big else 20000)
        verdicts = run.validate("Trace_VM", obs, shard=1 if big else 5000, parallel=4, heap="8g" if big else "5g", timeout=3600)
        run.triage("vm", "Trace_VM", obs, verdicts, rel, key=eval_key, nontrivial=vm_nontrivial)
    if explore:
        obs = run.replay("vm", explore=explore, mode="deep", name="vm_explore", idbase=base)
        verdicts = run.validate("Trace_VM", obs, shard=200, parallel=12, heap="3g")
        run.triage("vm", "Trace_VM", obs, verdicts, rel, key=eval_key, nontrivial=vm_nontrivial)


def vm_nontrivial(r):
    o = r.get("obs", {})
    return bool(o.get("acc")) and len(o.get("trace", [])) >= 3


VM_RULE = ("cases: TLC enumerates bounded program universes (each state one program; VM-refines-big-step, bytecode "
           "verification and the step bound are invariants of the specification's own compilation scheme and machine); "
           "every program is compiled by the real compiler and run by the real switch loop with the step hook on; TLC "
           "verifies the implementation's bytes structurally and replays the recorded instruction trace on the "
           "specification's machine. distinct = distinct programs; non-trivial = accepted and at least 3 executed instructions")


def vm_prop(pid, quick_modes, thorough_modes):
    def fn(tier, seed):
        run = Run(pid, tier, seed)
        modes = thorough_modes if tier == "thorough" else quick_modes
        explore = 20000 if tier == "thorough" else 800
        vm_stage(run, pid, modes, explore=explore)
        if pid == "C03":
            # the four back ends against each other and the specification (values, failures, logs)
            eval_stage(run, pid, [m[:1] + ("Gen_Eval.cfg",) + m[2:] for m in modes] + [G + ("bcbig", 2 if tier == "thorough" else 1)],
                       relevant=EVAL_REL["C03"])
        run.bounds = dict(universes=[dict(root=m[0], mode=m[2], size=m[3]) for m in modes],
                          explore="%d seeded type-directed programs of depth <= 5" % explore)
        return finish(run, "model_checking", VM_RULE, assumptions=EVAL_ASSUME)
    PROPS[pid] = fn
    REPLAY[pid] = ("vm", "Trace_VM", lambda why: vm_rel(pid, why))


# bcbig (thorough): conditionals whose jump targets lie at / beyond the 16-bit operand range -- compiled from the tree,
# not run; TLC checks the jump structure of whatever the compiler accepted
vm_prop("C11", [GV + ("bc", 1), GV + ("lazy", 1), GV + ("partial", 1), GV + ("bcbig", 1)],
        [GV + ("bc", 1), GV + ("lazy", 1), GV + ("partial", 2), GV + ("objs", 1), GV + ("opt", 1), GV + ("builtins", 2), GV + ("u1", 2),
         GV + ("bcbig", 2)])
vm_prop("C03", [GV + ("bc", 1), GV + ("lazy", 1), GV + ("partial", 1), GV + ("over", 1), GV + ("specials", 1), GV + ("sizes", 1)],
        [GV + ("bc", 1), GV + ("lazy", 1), GV + ("partial", 2), GV + ("over", 1), GV + ("specials", 1), GV + ("sizes", 1), GV + ("objs", 1),
         GV + ("builtins", 2), GV + ("u1", 1)])


# ---------------------------------------------------------------------------- front end (C08, C09, C12-steps)
FRONT_REL = {
    "C09": {"lexaccept", "tokens", "partition", "positions", "longest", "wholeword", "dotquestion", "total"},
    "C08": {"parseaccept", "tree", "spans", "nonassoc", "total"},
    # C12: the deterministic measure of parser work is polynomial, and it is the specification's
    "C12": {"eats", "eatsbound", "total"},
}
GF = ("Gen_Front", "Gen_Front.cfg")


def front_key(r):
    return json.dumps([r.get("ops"), r.get("src")], sort_keys=True)


def front_stage(run, pid, modes, explore=0, explore_mode="", relevant=None):
    rel = relevant if relevant is not None else FRONT_REL[pid]
    base = 0
    for module, cfg, mode, size in modes:
        cases, n = run.generate(module, cfg, mode=mode, size=size, idbase=base)
        base += n
        obs = run.replay("front", cases=cases, name="front_%s_%s" % (mode, size))
        verdicts = run.validate("Trace_Front", obs)
        run.triage("front", "Trace_Front", obs, verdicts, rel, key=front_key,
                   nontrivial=lambda r: len(r.get("src", [])) >= 3)
    if explore:
        obs = run.replay("front", explore=explore, mode=explore_mode, name="front_explore", idbase=base)
        verdicts = run.validate("Trace_Front", obs)
        run.triage("front", "Trace_Front", obs, verdicts, rel, key=front_key, nontrivial=lambda r: len(r.get("src", [])) >= 3)


FRONT_RULE = ("cases: TLC enumerates source texts (atom strings, token strings, operator-table x shape families); each state holds "
              "the specification's own lexing and parsing, the property is an invariant; every case goes through the real lexer "
              "and parser; TLC compares tokens / tree / spans / eat count and re-evaluates the property on the observed tokens and tree. "
              "distinct = distinct (operator table, text); non-trivial = at least 3 characters")


def front_prop(pid, quick_modes, thorough_modes):
    def fn(tier, seed):
        run = Run(pid, tier, seed)
        modes = thorough_modes if tier == "thorough" else quick_modes
        front_stage(run, pid, modes)
        run.bounds = dict(universes=[dict(root=m[0], mode=m[2], size=m[3]) for m in modes])
        return finish(run, "model_checking", FRONT_RULE, assumptions=["TLC's evaluation of the TLA+ operators is trusted"])
    PROPS[pid] = fn
    REPLAY[pid] = ("front", "Trace_Front", FRONT_REL[pid])


front_prop("C09", [GF + ("lex", 2), GF + ("toks", 2)], [GF + ("lex", 3), GF + ("toks", 4)])
front_prop("C08", [GF + ("prec", 1), GF + ("toks", 3)], [GF + ("prec", 1), GF + ("toks", 4)])


# ---------------------------------------------------------------------------- C10 desugaring
@prop("C10", "desugar", "Trace_Desugar", None)
def c10(tier, seed):
    run = Run("C10", tier, seed)
    thorough = tier == "thorough"
    # structural half: the real desugarer against Desugar on every parsed tree of the sugar universe
    cases, n = run.generate("Gen_Front", "Gen_Front.cfg", mode="sugar", size=5 if thorough else 4)
    obs = run.replay("desugar", cases=cases, name="desugar_sugar")
    verdicts = run.validate("Trace_Desugar", obs)
    run.triage("desugar", "Trace_Desugar", obs, verdicts, None, key=front_key,
               nontrivial=lambda r: bool(r.get("obs", {}).get("parsed")))
    # semantic half: sugared notations (?:, method-call syntax) of well-typed programs mean the explicit calls
    rel = EVAL_REL["C04"] | per_backend("accept", "failclass", "nofail") | {"accept", "type"}
    for style in (1, 2, 3):
        base = style * 1000000
        cases, n = run.generate("Gen_Eval", "Gen_Eval.cfg", mode="lazy", size=1, idbase=base, name="c10_lazy_%d" % style)
        styled = cases + ".styled"
        with open(cases) as f, open(styled, "w") as o:
            for line in f:
                o.write('{"style":%d,%s' % (style, line.strip()[1:]) + "\n")
        obs = run.replay("eval", cases=styled, name="c10_eval_%d" % style)
        verdicts = run.validate("Trace_Eval", obs, shard=3000, parallel=12, heap="3g")
        run.triage("eval", "Trace_Eval", obs, verdicts, rel, key=eval_key, nontrivial=eval_nontrivial)
    run.bounds = dict(sugar="all token strings of <= %d tokens over 13 token kinds + 24 longer shapes (method calls with 1..10 arguments, "
                      "sugared callees, sugar inside literals and subscripts)" % (5 if thorough else 4),
                      semantic="the lazy universe rendered with ?: and/or method-call syntax (3 notations) on all four back ends")
    return finish(run, "model_checking",
                  "structural: every parsed tree of the sugar universe is desugared by the real desugarer; TLC compares the result "
                  "(with every position and debug column) with the specification's Desugar, checks core-only, idempotence, that the "
                  "original tree is untouched and that desugaring it again gives the same; semantic: programs rendered in sugared "
                  "notations evaluate to the specification's value of the explicit calls. distinct = distinct texts; non-trivial = parsed",
                  assumptions=["TLC's evaluation of the TLA+ operators is trusted"])


# ---------------------------------------------------------------------------- API histories (C07, C12, C13)
def api_rel(names):
    names = set(names)
    return lambda why: {w for w in why if w.rsplit("_", 1)[0] in names}


API_REL = {
    # C07: rejected iff a compile-time name is missing / differently typed, and a rejection evaluates nothing
    "C07": api_rel({"accepted", "rejected", "outcome", "value", "log"}),
    # C12: a value or an error, never a panic
    "C12": api_rel({"panic", "hostoutcome"}),
    # C13: determinism, purity, reusability
    "C13": api_rel({"nondet", "stdout", "hostmutated", "rejected", "outcome", "value", "log", "accepted"}),
}
GA = ("Gen_Api", "Gen_Api.cfg")


def api_key(r):
    return json.dumps(r.get("h"), sort_keys=True)


def api_stage(run, pid, modes, rel=None):
    rel = rel or API_REL[pid]
    base = 0
    for module, cfg, mode, size in modes:
        cases, n = run.generate(module, cfg, mode=mode, size=size, idbase=base)
        base += n
        obs = run.replay("api", cases=cases, name="api_%s_%s" % (mode, size))
        verdicts = run.validate("Trace_Api", obs, cfg="TraceT.cfg", shard=160, parallel=14, heap="3g")
        run.triage("api", "Trace_Api", obs, verdicts, rel, cfg="TraceT.cfg", key=api_key, nontrivial=lambda r: len(r.get("h", [])) >= 2)


API_RULE = ("cases: TLC enumerates API histories (compile / invoke / eval / debug over pools of environment objects, sources and "
            "engines); the specification gives each step the outcome its objects' CONTENTS dictate; the harness executes each history "
            "on the same Go objects the history names, on every back end, repeating every evaluation; TLC judges every step. "
            "distinct = distinct histories; non-trivial = at least two steps")


def api_prop(pid, quick_modes, thorough_modes):
    def fn(tier, seed):
        run = Run(pid, tier, seed)
        modes = thorough_modes if tier == "thorough" else quick_modes
        api_stage(run, pid, modes)
        if pid == "C13":
            # what one compilation learnt about a Go type must not leak into the next one (host values of one Go type)
            conv_stage(run, pid, rel={"pairsecond", "panic_pair"})
            # one parsed tree compiled for several environments: a later compilation must not change what an earlier
            # callable computes (all three closure-producing back ends; sugar universe of short sources)
            cases, n = run.generate("Gen_Front", "Gen_Front.cfg", mode="sugar", size=3 if tier == "thorough" else 2, idbase=500000)
            obs = run.replay("desugar", cases=cases, name="desugar_reuse")
            verdicts = run.validate("Trace_Desugar", obs)
            run.triage("desugar", "Trace_Desugar", obs, verdicts, {"reuse", "total"}, key=front_key,
                       nontrivial=lambda r: bool(r.get("obs", {}).get("parsed")))
        run.bounds = dict(universes=[dict(root=m[0], mode=m[2], size=m[3]) for m in modes])
        return finish(run, "model_checking", API_RULE, assumptions=["TLC's evaluation of the TLA+ operators is trusted",
                      "wall-clock promptness and process survival are observed by the harness watchdog, not by TLC"])
    PROPS[pid] = fn
    REPLAY[pid] = ("api", "Trace_Api", API_REL[pid])


def c12(tier, seed):
    run = Run("C12", tier, seed)
    thorough = tier == "thorough"
    api_stage(run, "C12", [GA + ("total", 0), GA + ("hosts", 0), GA + ("deep", 0)] + ([GA + ("hist", 3)] if thorough else []))
    # parser work (eat calls): bracket nests and all short token strings
    front_stage(run, "C12", [("Gen_Front", "Gen_FrontNests.cfg", "nests", 14 if thorough else 11), GF + ("toks", 4 if thorough else 3)])
    run.bounds = dict(api="one-step histories over 16 sources x hosts; 17 unusual host values through Eval / Compile+call / Debug",
                      nests="7 bracket families to depth %d; all token strings of <= %d tokens" % (14 if thorough else 11, 4 if thorough else 3))
    return finish(run, "model_checking", API_RULE + " | parser work: the eat() counter (hook) of the real parser equals the "
                  "specification's and stays below 4(n+1)^2 for n tokens",
                  assumptions=["wall-clock promptness and process survival are observed by the harness watchdog (20 s per case), not by TLC"])


PROPS["C12"] = c12
REPLAY["C12"] = ("api", "Trace_Api", API_REL["C12"])
def c07(tier, seed):
    run = Run("C07", tier, seed)
    thorough = tier == "thorough"
    api_stage(run, "C07", [GA + ("pairs", 1 if thorough else 0)] + ([GA + ("hist", 3)] if thorough else []))
    # host data of ONE Go type whose yae type depends on the value (nil-ness, interface contents):
    # compiled against one sample, invoked with another -- directly, and after the callable has been used
    conv_stage(run, "C07", rel={"pairaccept", "paircompile", "pairwarm", "pairsecond", "panic_pair"})
    run.bounds = dict(pairs="18 compile-time x 42 run-time environment objects x %d sources; struct pairs of one Go type" % (6 if thorough else 2))
    return finish(run, "model_checking", API_RULE, assumptions=["TLC's evaluation of the TLA+ operators is trusted"])


PROPS["C07"] = c07
REPLAY["C07"] = ("api", "Trace_Api", API_REL["C07"])
api_prop("C13", [GA + ("hist", 3)], [GA + ("hist", 4), GA + ("total", 0), GA + ("pairs", 1)])


# ---------------------------------------------------------------------------- host-data conversion (C15, C16 host part)
def conv_stage(run, pid, rel=None):
    base = 0
    for mode in ("singles", "pairs"):
        cases, n = run.generate("Gen_Conv", "Gen_Conv.cfg", mode=mode, size=0, idbase=base)
        base += n
        obs = run.replay("conv", cases=cases, name="conv_" + mode)
        verdicts = run.validate("Trace_Conv", obs)
        run.triage("conv", "Trace_Conv", obs, verdicts, rel, key=lambda r: json.dumps([r.get("a"), r.get("b")], sort_keys=True),
                   nontrivial=lambda r: r["a"]["t"]["g"] in ("ptr", "slice", "array", "map", "struct", "iface"))


CONV_RULE = ("cases: TLC enumerates descriptors of Go values (13 scalars x 36 one-level constructions, x 6 second-level wrappers, special "
             "cases: nesting depth 99..102, tags, zones; pairs of values of one struct type in every nil / tagged combination); the harness "
             "builds each with reflect and calls conv.ValOf / conv.TypeOf, and for pairs compiles against the first and invokes with the "
             "second; TLC compares with ConvVal / TypeOfGo and re-evaluates well-formedness and value/type agreement on the observed value. "
             "distinct = distinct descriptors; non-trivial = composite at top level")


@prop("C15", "conv", "Trace_Conv", None)
def c15(tier, seed):
    run = Run("C15", tier, seed)
    conv_stage(run, "C15")
    run.bounds = dict(singles="scalars, one- and two-level constructions, specials", pairs="struct pairs")
    return finish(run, "model_checking", CONV_RULE, assumptions=["TLC's evaluation of the TLA+ operators is trusted",
                  "Go map iteration order is not controlled: mixed-type maps are rejected whichever entry comes first"])


# ---------------------------------------------------------------------------- C20 SQL generation
@prop("C20", "sql", "Trace_Sql", None)
def c20(tier, seed):
    run = Run("C20", tier, seed)
    thorough = tier == "thorough"
    base = 0
    for mode, size in (("trees", 3 if thorough else 2), ("conds", 0)):
        cases, n = run.generate("Gen_Sql", "Gen_Sql.cfg", mode=mode, size=size, idbase=base)
        base += n
        obs = run.replay("sql", cases=cases, name="sql_" + mode)
        verdicts = run.validate("Trace_Sql", obs, cfg="TraceT.cfg", shard=20000)
        run.triage("sql", "Trace_Sql", obs, verdicts, None, cfg="TraceT.cfg", key=lambda r: json.dumps(r.get("c"), sort_keys=True),
                   nontrivial=lambda r: r["c"]["k"] == "group")
    run.bounds = dict(trees="every criteria tree of depth <= %d over AND / OR / NOT with two leaf conditions" % (3 if thorough else 2),
                      conds="every condition kind (= <> < <= > >= LIKE IN BETWEEN ISNULL) x operand pools (16 adversarial strings, "
                            "9 numbers incl. >= 2^63, bools, times, bound and unbound names) at every leaf of 7 shapes")
    return finish(run, "model_checking",
                  "cases: TLC enumerates criteria trees (StructurePreserved and OneLiteralPerString are invariants of the specification's "
                  "generation scheme + reference reader); each tree is built through ext.Cond / ext.CondGroup and compiled with "
                  "ext.CompileToSql; TLC tokenises the produced text, reads it with standard SQL precedence and compares the flattened "
                  "structure and every condition's tokens with the criteria tree. distinct = distinct trees; non-trivial = has a connective",
                  assumptions=["string literals are read the MySQL-default way (backslash escapes); whether \\\\xNN escapes of control "
                               "characters decode back to the operand is reported as a diagnostic, not a verdict"])


# ---------------------------------------------------------------------------- C14 concurrency
C14_MODEL = [("engines", 3), ("warm", 3), ("invoke", 3), ("mixed", 3)]
C14_NEG = [("racy", 2, "RaceFree"), ("racy", 2, "FreshNames"), ("racy", 2, "NoLostDraw"), ("cold", 2, "RaceFree"),
           ("cold", 2, "SameTables"), ("nolock", 2, "RaceFree"), ("nolock", 2, "TzGuarded")]


@prop("C14", "conc", "Trace_Conc", None)
def c14(tier, seed):
    run = Run("C14", tier, seed)
    thorough = tier == "thorough"
    # Mode A: every interleaving of the shared-memory skeleton
    for mode, size in C14_MODEL + ([("invoke", 4), ("mixed", 4), ("warm", 4)] if thorough else []):
        run.model_check("Gen_Conc", "Gen_Conc.cfg", mode=mode, size=size, heap="12g", timeout=3600)
    # negative controls: the invariants are not vacuous -- TLC must find each violation
    neg = []
    for mode, size, inv in C14_NEG:
        r = vf.tlc("Gen_Conc", "Gen_Conc_%s.cfg" % inv, dict(P_MODE=mode, P_SIZE=size), timeout=900)
        if vf.tlc_violation(r) != inv:
            raise vf.Infra("negative control %s: TLC did not find a violation of %s (the invariant is vacuous):\n%s"
                           % (mode, inv, vf.tail(r["out"], 30)))
        neg.append("%s violates %s" % (mode, inv))
    run.extra["negative_controls"] = neg
    # Mode B/C: scenarios run by the -race harness, one process each
    cases, n = run.generate("Gen_Conc", "Gen_Conc.cfg", mode="cases", size=2 if thorough else 1)
    passes = 2 if thorough else 1
    base = 0
    for ps in range(passes):
        recs = vf.read_ndjson(cases)
        for r in recs:
            r["id"] = base + r["id"]
            r["oseed"] = seed * 1000 + ps
        base += len(recs)
        pc = os.path.join(vf.scratch(), "conc_pass%d.ndjson" % ps)
        vf.write_ndjson(pc, recs)
        obs = run.replay("conc", cases=pc, name="conc_%d" % ps, race=True, jobs=4, budget=60000)
        verdicts = run.validate("Trace_Conc", obs, cfg="TraceT.cfg", shard=60, parallel=12, heap="3g")
        hr = [i for i, v in verdicts.items() if v.get("skip") == "harness race"]
        if hr:
            raise vf.Infra("the race detector reported a race inside the harness itself (cases %s)" % hr[:5])
        # the race detector's report / the differing outcome is recorded in the observation itself; a schedule
        # need not repeat, so rejected records are not re-executed before they are reported
        run.triage("conc", "Trace_Conc", obs, verdicts, None, confirm=False,
                   key=lambda r: json.dumps([r["kind"], r["g"], r["backend"], r["rot"]]),
                   nontrivial=lambda r: r["g"] >= 4)
    run.bounds = dict(model="P goroutines x the per-access skeleton: engines/warm/invoke/mixed at P=3%s; Draws=2 per compilation"
                            % (", invoke/mixed/warm at P=4" if thorough else ""),
                      scenarios="4 kinds x G in %s x 4 back ends x %d program rotations x %d offset seed(s), %s rounds"
                                % ("{2,4,8}" if thorough else "{4}", 17 if thorough else 6, passes, "2 (invoke: 6)"))
    return finish(run, "model_checking",
                  "states: every interleaving of P goroutines over the shared-memory skeleton of Compile / invocation (one step per shared "
                  "access or lock operation): RaceFree, TzGuarded, FreshNames, GloballyFresh, SameTables, NoStuck, NoLostDraw are invariants; "
                  "seven negative controls (non-atomic counter, shared cold engine, unlocked zone cache) must each be found violating. "
                  "cases: scenario descriptors run by the harness built with -race, one process per scenario, goroutines released from a "
                  "barrier with seeded offsets; TLC rejects a record when the race detector reported a race inside yae, when any "
                  "goroutine's outcome differs from the same work run alone or from the specification's own evaluation, or when the "
                  "recorded draws from the type-variable counter (types.TyVarHook) are not a behaviour of the atomic Draw action. "
                  "distinct = distinct scenarios; non-trivial = at least 4 goroutines",
                  assumptions=["the Go race detector reports only real races (it has no false positives) but sees only the schedules that "
                               "happened; the exhaustive part is the TLA+ skeleton, whose steps were read off the code by hand",
                               "TLC's evaluation of the TLA+ operators is trusted"])


REPLAY_OPTS["C14"] = dict(race=True, repeat=5)


# ---------------------------------------------------------------------------- C19 debug evaluation
C19_PUB = {"pubpanic", "pubsame", "pubreport"}


@prop("C19", "debug", "Trace_Debug", None)
def c19(tier, seed):
    run = Run("C19", tier, seed)
    thorough = tier == "thorough"
    base = 0
    for mode in (("dbg", "dbg2", "lazy") if not thorough else ("dbg", "dbg2", "lazy", "objs", "partial")):
        cases, n = run.generate("Gen_Eval", "Gen_Eval.cfg", mode=mode, size=(2 if thorough and mode == "dbg2" else 1), idbase=base)
        base += n
        obs = run.replay("debug", cases=cases, name="debug_" + mode)
        verdicts = run.validate("Trace_Debug", obs, shard=600, parallel=12, heap="3g")
        run.triage("debug", "Trace_Debug", obs, verdicts, None, key=eval_key,
                   nontrivial=lambda r: len(r.get("obs", {}).get("dbg", {}).get("entries", [])) >= 2)
    run.bounds = dict(universes=["dbg: 36 built-in-only single-line programs (non-ASCII identifiers and strings, unevaluated lazy "
                                 "branches, failing evaluations) through yae.Debug and closure.DebugCompile",
                                 "lazy: tracer / poison universe through closure.DebugCompile with user lazy functions"])
    return finish(run, "model_checking",
                  "cases: programs of the universes rendered to one-line source; the specification lexes and parses the recorded source "
                  "itself (its own columns), evaluates it in debug mode (DebugEval) and TLC compares the recorded entries (value, column) "
                  "in recording order, the outcome against normal evaluation, and checks the report declaratively (first line the source, "
                  "every record at its column under a bar). distinct = distinct programs; non-trivial = at least two recorded values",
                  assumptions=["TLC's evaluation of the TLA+ operators is trusted"])
