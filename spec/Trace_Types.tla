---------------------------- MODULE Trace_Types ----------------------------
(***************************************************************************)
(* C17, Mode C: observations of types.Equals / types.Unify recorded from   *)
(* the Go code are judged against the specification, one step per record.  *)
(*   record: [id, x, y, obs |-> [eq, eqrev, unify |-> [class, ok, t, m]]]  *)
(***************************************************************************)
EXTENDS YaeTypes, YaeIO

Obs == ObsLoaded
N == Len(Obs)
VARIABLE st      \* [c |-> chunk, l |-> index of the next record of that chunk]

SubstOf(ms) == [n \in {ms[i].n : i \in 1..Len(ms)} |-> ms[CHOOSE i \in 1..Len(ms) : ms[i].n = n].t]

Judge(r) ==
  LET o == r.obs
      died == "died" \in DOMAIN o
      u == UnifyK(r.x, r.y, EmptyM)
      \* the code refuses a non-primitive map key by a panic of the assertion in types.Map
      \* (recovered by Compile); for the property that is a failed unification, not a fault
      refused == ~died /\ o.unify.class = "panic" /\ o.unify.pk = "keykind"
      answered == ~died /\ (o.unify.class = "ok" \/ refused)
      obsOk == ~died /\ o.unify.class = "ok" /\ o.unify.ok
      om == IF died THEN EmptyM ELSE SubstOf(o.unify.m)
      conj == [
        \* the code answered at all (no panic, no crash)
        total       |-> ~died /\ o.eq.class = "ok" /\ o.eqrev.class = "ok" /\ answered,
        \* types.Equals = specification's TypeEq, both ways
        eq          |-> died \/ o.eq.class # "ok" \/ o.eq.v = TypeEq(r.x, r.y),
        eqrev       |-> died \/ o.eqrev.class # "ok" \/ o.eqrev.v = TypeEq(r.y, r.x),
        \* property, evaluated on the OBSERVED answers: symmetric; structural (fields by name)
        eqSym       |-> died \/ o.eq.class # "ok" \/ o.eqrev.class # "ok" \/ o.eq.v = o.eqrev.v,
        eqStruct    |-> died \/ o.eq.class # "ok" \/ o.eq.v = (CanonType(r.x) = CanonType(r.y)),
        \* types.Unify = the transcription: success, resulting type, substitution
        \* (the key-kind assertion sits in the type constructor and fires on whatever intermediate type the algorithm
        \*  builds: a refusal by it is legitimate whenever SOME map key of the operands or of the bindings is not
        \*  keyable under the final substitution, also where the transcription's own approximation -- result and
        \*  bindings as stored -- does not see it)
        unifyOk     |-> ~answered \/ obsOk = u.ok
                          \/ (refused /\ u.ok /\ ~CyclicSubst(u.m)
                               /\ (~WellKeyed(ApplySubst(r.x, u.m)) \/ ~WellKeyed(ApplySubst(r.y, u.m))
                                   \/ \E n \in DOMAIN u.m : ~WellKeyed(ApplySubst(u.m[n], u.m)))),
        unifyType   |-> ~obsOk \/ ~u.ok \/ o.unify.t = u.t,
        unifySubst  |-> ~answered \/ refused \/ obsOk # u.ok \/ om = u.m,
        \* property, on the OBSERVED substitution: sound, no self-containing binding
        sound       |-> ~obsOk \/ HasBotTop(r.x) \/ HasBotTop(r.y) \/ CyclicSubst(om)
                          \/ TypeEq(ApplySubst(r.x, om), ApplySubst(r.y, om)),
        noSelf      |-> ~obsOk \/ ~CyclicSubst(om)
      ]
  IN {n \in DOMAIN conj : ~conj[n]}

Init == st \in {[c |-> c, l |-> ChunkLo(c, N)] : c \in 1..NChunks}
Next == /\ st.l <= ChunkHi(st.c, N)
        /\ EmitVerdict(Obs[st.l].id, Judge(Obs[st.l]), "")
        /\ st' = [st EXCEPT !.l = @ + 1]
=============================================================================
