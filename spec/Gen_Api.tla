---------------------------- MODULE Gen_Api ----------------------------
(***************************************************************************)
(* API histories (C07, C12, C13): pools of environment objects, sources    *)
(* and engines; a state is a history; TLC enumerates histories up to a     *)
(* length bound (BFS over the actions Compile / Invoke / Eval / Debug).    *)
(*   P_MODE = "pairs"  <<compile against T, invoke with V>> for every      *)
(*                     (compile-time env, run-time env) pair               *)
(*            "hist"   all histories of <= P_SIZE steps over small pools   *)
(*            "total"  one-step histories: every source of the pool (valid,*)
(*                     malformed, ill-typed, failing at run time) through  *)
(*                     eval / debug / compile+invoke                       *)
(***************************************************************************)
EXTENDS YaeApi, YaeIO

VARIABLE st
Map1A(L, Mk(_)) == [i \in 1..Len(L) |-> Mk(L[i])]
Prod2(L1, L2, Mk(_, _)) ==
  [k \in 1..(Len(L1) * Len(L2)) |-> Mk(L1[((k - 1) \div Len(L2)) + 1], L2[((k - 1) % Len(L2)) + 1])]
Prod3(L1, L2, L3, Mk(_, _, _)) ==
  [k \in 1..(Len(L1) * Len(L2) * Len(L3)) |->
     Mk(L1[((k - 1) \div (Len(L2) * Len(L3))) + 1], L2[(((k - 1) \div Len(L3)) % Len(L2)) + 1], L3[((k - 1) % Len(L3)) + 1])]

(* ---- environment contents (input-shape values) ---- *)
B(n, v) == [n |-> n, v |-> v]
IL(ty, els) == [k |-> "list", ty |-> ty, els |-> els]
IM(ty, ents) == [k |-> "map", ty |-> ty, ents |-> ents]
IO(ty, vals) == [k |-> "obj", ty |-> ty, vals |-> vals]
TAB == TObj(<<Fld(N_a, TNum), Fld(N_b, TStr)>>)
TBA == TObj(<<Fld(N_b, TStr), Fld(N_a, TNum)>>)
NumV(i) == VNum(NInt(i))
MapAB == IM(TMap(TStr, TNum), <<[key |-> VStr(<<97>>), val |-> NumV(1)], [key |-> VStr(<<98>>), val |-> NumV(2)]>>)
EnvA == <<B(N_n, NumV(3)), B(N_s, VStr(<<97, 98>>)), B(N_xs, IL(TList(TNum), <<NumV(1), NumV(2), NumV(3)>>)),
          B(N_m, MapAB), B(N_ob, IO(TAB, <<NumV(1), VStr(<<120>>)>>))>>
Replace(env, name, v) == [i \in 1..Len(env) |-> IF env[i].n = name THEN B(name, v) ELSE env[i]]
Drop(env, name) == SelectSeq(env, LAMBDA b : b.n # name)
Contents(id) ==
  CASE id = "A" -> EnvA
    [] id = "B" -> <<B(N_n, NumV(1)), B(N_s, VStr(<<233>>)), B(N_xs, IL(TList(TNum), <<NumV(5), NumV(6)>>)),
                     B(N_m, IM(TMap(TStr, TNum), <<>>)), B(N_ob, IO(TAB, <<NumV(2), VStr(<<121>>)>>))>>
    [] id = "C" -> Drop(EnvA, N_n)                                   \* a name is missing
    [] id = "D" -> Replace(EnvA, N_n, VStr(<<51>>))                   \* a type changed
    [] id = "E" -> EnvA \o <<B(N_z, NumV(0))>>                        \* extra names
    [] id = "F" -> Replace(EnvA, N_ob, IO(TBA, <<VStr(<<120>>), NumV(1)>>))     \* object fields reordered
    [] id = "G" -> Replace(EnvA, N_xs, IL(TList(TNum), <<>>))         \* empty container
    [] id = "H" -> Replace(Replace(EnvA, N_n, VStr(<<97>>)), N_s, NumV(3))      \* two bindings' types swapped
    [] id = "I" -> Replace(EnvA, N_xs, IL(TList(TStr), <<VStr(<<97>>)>>))       \* element type changed
    [] id = "J" -> EnvA \o <<B(N_mx, VNothing(TNum))>>               \* with an optional, absent (not realisable as a map entry)
    [] id = "L" -> EnvA \o <<B(N_mx, VJust(TNum, NumV(9)))>>         \* ... present
    [] id = "K" -> <<>>                                               \* empty environment
    \* two fields of one composite type (a raw type environment typically shares the *Type): equal, and differing in the second
    [] id = "M" -> <<B(N_n, NumV(3)), B(N_ob, IO(TObj(<<Fld(N_p, TList(TNum)), Fld(N_q, TList(TNum))>>),
                                                  <<IL(TList(TNum), <<NumV(1)>>), IL(TList(TNum), <<NumV(2)>>)>>))>>
    [] id = "N" -> <<B(N_n, NumV(3)), B(N_ob, IO(TObj(<<Fld(N_p, TList(TNum)), Fld(N_q, TList(TStr))>>),
                                                  <<IL(TList(TNum), <<NumV(1)>>), IL(TList(TStr), <<VStr(<<97>>)>>)>>))>>
    [] id = "O" -> Replace(EnvA, N_ob, IO(TObj(<<Fld(N_a, TNum), Fld(N_c, TStr)>>), <<NumV(1), VStr(<<120>>)>>))    \* a nested field renamed
    [] id = "P" -> Replace(EnvA, N_ob, IO(TObj(<<Fld(N_c, TNum), Fld(N_b, TStr)>>), <<NumV(1), VStr(<<120>>)>>))
    [] OTHER -> <<>>
ContentIds == <<"A", "B", "C", "D", "E", "F", "G", "H", "I", "J", "K", "L", "M", "N", "O", "P">>
Kinds == <<"raw", "struct", "map">>
\* environment objects: index = (content, kind)
EnvObjs == Prod2(ContentIds, Kinds, LAMBDA c, k : [id |-> c, kind |-> k, binds |-> Contents(c)])
ObjIdx(c, k) == CHOOSE i \in 1..Len(EnvObjs) : EnvObjs[i].id = c /\ EnvObjs[i].kind = k
Pre == <<"U_T">>
Ops == BuiltinOps

Compile(e, src, t) == [op |-> "compile", eng |-> e, src |-> src, tenv |-> t]
Invoke(c, v) == [op |-> "invoke", call |-> c, venv |-> v]
EvalS(src, v) == [op |-> "eval", src |-> src, venv |-> v]
DebugS(src, v) == [op |-> "debug", src |-> src, venv |-> v]

PairSrcs == IF P_SIZE >= 1 THEN <<SRC_n_plus_1, SRC_ob_a_plus_n, SRC_t1_t2, SRC_len_xs_plus_n, SRC_get_mx, SRC_one>>
            ELSE <<SRC_ob_a_plus_n, SRC_t1_t2>>
PairHists ==
  Prod3(Prod2(<<"A", "C", "E", "F", "K", "J", "O">>, Kinds, LAMBDA c, k : ObjIdx(c, k)), [i \in 1..Len(EnvObjs) |-> i], PairSrcs,
        LAMBDA t, v, s : <<Compile(1, s, t), Invoke(1, v)>>)
    \o Prod3(Prod2(<<"M", "N">>, Kinds, LAMBDA c, k : ObjIdx(c, k)), Prod2(<<"M", "N", "A">>, Kinds, LAMBDA c, k : ObjIdx(c, k)), <<SRC_n_plus_1>>,
              LAMBDA t, v, s : <<Compile(1, s, t), Invoke(1, v)>>)
\* ... and each callable is checked against ITS OWN compile-time environment, whatever the engine compiled afterwards
PairHists2 ==
  Concat(Map1A(<<"raw", "struct", "map">>, LAMBDA k :
    Prod3(<<ObjIdx("A", k), ObjIdx("D", k), ObjIdx("C", k)>>, <<ObjIdx("A", k), ObjIdx("D", k), ObjIdx("E", k)>>, <<SRC_n_plus_1, SRC_one, SRC_type_err>>,
          LAMBDA t1, t2, s2 : <<Compile(1, SRC_len_xs_plus_n, t1), Compile(1, s2, t2), Invoke(1, ObjIdx("A", k)), Invoke(1, ObjIdx("D", k)),
                                Invoke(2, ObjIdx("A", k))>>)))
\* short sources whose nesting is deep: compile and evaluation time must stay polynomial (watchdog)
RECURSIVE RepT(_, _)
RepT(x, n) == IF n = 0 THEN <<>> ELSE x \o RepT(x, n - 1)
DeepSrcs == <<RepT(<<91, 49, 58>>, 28) \o <<49>> \o RepT(<<93>>, 28),                  \* [1:[1:[1: ... 1]]]   28 deep, 113 characters
              RepT(<<91>>, 28) \o <<49>> \o RepT(<<93, 58, 49>>, 27) \o <<93>>,        \* [[[1]:1]:1] ...      28 deep
              RepT(<<91>>, 40) \o <<49>> \o RepT(<<93>>, 40), RepT(<<40>>, 60) \o <<49>> \o RepT(<<41>>, 60),
              RepT(<<123, 97, 58>>, 30) \o <<49>> \o RepT(<<125>>, 30),
              RepT(<<110, 32, 62, 32, 48, 32, 63, 32>>, 30) \o <<49>> \o RepT(<<32, 58, 32, 50>>, 30),     \* n > 0 ? n > 0 ? ... 1 : 2 : 2
              <<110>> \o RepT(<<32, 43, 32, 110>>, 50), RepT(<<45>>, 40) \o <<110>>, RepT(<<33>>, 61) \o <<40, 110, 32, 62, 32, 48, 41>>>>
DeepHists == Map1A(DeepSrcs, LAMBDA s : <<EvalS(s, ObjIdx("A", "struct"))>>)
               \o Map1A(DeepSrcs, LAMBDA s : <<Compile(1, s, ObjIdx("A", "raw")), Invoke(1, ObjIdx("A", "raw"))>>)
TotalSrcs == <<SRC_n_plus_1, SRC_syntax_err, SRC_type_err, SRC_lex_err, SRC_xs_n, SRC_deep_idx, SRC_mod0, SRC_key_zz, SRC_bad_regex,
               SRC_if_guard, SRC_union_xs, SRC_print_n, SRC_string_m, SRC_t1_t2, SRC_nested, SRC_m_b, SRC_string_mm, SRC_string_obmm, SRC_nl_after, SRC_nl_before, SRC_crlf_after, SRC_nl_inside>>
FailSrcs == <<SRC_bad_regex, SRC_deep_idx, SRC_mod0, SRC_key_zz, SRC_syntax_err, SRC_type_err, SRC_lex_err>>
AfterSrcs == <<SRC_good_match, SRC_good_match2, SRC_n_plus_1, SRC_m_b>>
TotalHists ==
  Prod2(TotalSrcs, <<ObjIdx("A", "struct"), ObjIdx("A", "map"), ObjIdx("B", "struct"), ObjIdx("G", "map")>>, LAMBDA s, v : <<EvalS(s, v)>>)
    \o Prod2(TotalSrcs, <<ObjIdx("A", "struct"), ObjIdx("A", "map")>>, LAMBDA s, v : <<DebugS(s, v)>>)
    \o Prod3(TotalSrcs, <<ObjIdx("A", "raw"), ObjIdx("A", "struct")>>, <<ObjIdx("A", "raw"), ObjIdx("A", "map"), ObjIdx("B", "struct")>>,
             LAMBDA s, t, v : <<Compile(1, s, t), Invoke(1, v)>>)

    \* after a failure, the same process / engine / callable must keep answering (and answer the same)
    \o Prod3(FailSrcs, AfterSrcs, <<ObjIdx("A", "struct"), ObjIdx("A", "map")>>, LAMBDA f, g, v : <<EvalS(f, v), EvalS(g, v), EvalS(f, v)>>)
    \o Prod2(FailSrcs, AfterSrcs, LAMBDA f, g : <<Compile(1, f, ObjIdx("A", "raw")), Invoke(1, ObjIdx("A", "raw")),
                                                  Compile(1, g, ObjIdx("A", "raw")), Invoke(2, ObjIdx("A", "raw")), Invoke(1, ObjIdx("A", "struct"))>>)
    \o Prod2(FailSrcs, AfterSrcs, LAMBDA f, g : <<DebugS(f, ObjIdx("A", "struct")), DebugS(g, ObjIdx("A", "struct"))>>)

\* "hosts": unusual host values (catalogued by name in the harness) through Eval / Compile / Debug.
\* What the API must return for each: a value or an error -- and which.
HostNames == <<"H_nil", "H_nilptr_struct", "H_ptr_nilptr", "H_ptr_nilmap", "H_ptrptr_struct", "H_chan", "H_func", "H_int",
               "H_deep120", "H_selfref", "H_mixed_iface_slice", "H_map_intkeys", "H_map_mixed_iface", "H_struct_chan_field",
               "H_nested_nil_iface", "H_empty_struct", "H_ptr_struct", "H_iface_cycle", "H_ptr_cycle", "H_iface_cycle_field",
               "H_map_reserved_key", "H_struct_reserved_tag", "H_map_odd_keys">>
HostExpect(name, src) ==      \* for the source "1" (needs no variable)
  IF name \in {"H_nil", "H_ptrptr_struct", "H_empty_struct", "H_ptr_struct", "H_ptr_nilmap",
               "H_map_reserved_key", "H_struct_reserved_tag", "H_map_odd_keys"} THEN "value" ELSE "error"   \* (names are just names)   \* (a nil map is an empty environment)
HostHists == Prod2(HostNames, <<SRC_one, SRC_syntax_err>>, LAMBDA hn, s : <<[op |-> "hosteval", src |-> s, host |-> hn]>>)

\* "hist": BFS over actions
\* (length-4 histories over fewer sources: the number of histories is (compile choices + invoke choices)^length)
HSrcs == IF P_SIZE >= 4 THEN <<SRC_t1_t2, SRC_string_mm, SRC_max_min_xs, SRC_xs0>>
         ELSE <<SRC_map_lit, SRC_t1_t2, SRC_union_many, SRC_string_mm, SRC_max_min_xs, SRC_xs0>>
NEng == 1
HTenvs == <<ObjIdx("A", "raw"), ObjIdx("A", "struct"), ObjIdx("D", "raw")>>
HVenvs == <<ObjIdx("A", "raw"), ObjIdx("B", "raw"), ObjIdx("A", "map"), ObjIdx("D", "raw")>>
NCalls(h) == Len(SelectSeq(h, LAMBDA s : s.op = "compile"))

Init == IF P_MODE = "pools" THEN st = [pools |-> TRUE]
        ELSE IF P_MODE = "hist" THEN st = [h |-> <<>>]
        ELSE st \in {[seed |-> i] : i \in 1..16}
Fixed == IF P_MODE = "pairs" THEN PairHists \o PairHists2 ELSE IF P_MODE = "total" THEN TotalHists ELSE IF P_MODE = "hosts" THEN HostHists
         ELSE IF P_MODE = "deep" THEN DeepHists ELSE <<>>
NF == Len(Fixed)
Next ==
  IF P_MODE = "pools" THEN FALSE
  ELSE IF P_MODE = "hist" THEN
    /\ "h" \in DOMAIN st /\ Len(st.h) < P_SIZE
    /\ \/ \E e \in 1..NEng, i \in 1..Len(HSrcs), t \in 1..Len(HTenvs) : st' = [h |-> Append(st.h, Compile(e, HSrcs[i], HTenvs[t]))]
       \/ \E c \in 1..NCalls(st.h), v \in 1..Len(HVenvs) : st' = [h |-> Append(st.h, Invoke(c, HVenvs[v]))]
  ELSE /\ "seed" \in DOMAIN st
       /\ \E j \in (((st.seed - 1) * NF) \div 16 + 1)..((st.seed * NF) \div 16) : st' = [h |-> Fixed[j]]

IsCase == "h" \in DOMAIN st /\ Len(st.h) >= 1 /\ st.h[Len(st.h)].op # "compile"
Emit == /\ IsCase => EmitCase([fam |-> "api", h |-> st.h, pre |-> Pre])
        /\ "pools" \in DOMAIN st => EmitCase([pools |-> TRUE, envs |-> EnvObjs])

(* ---- the properties on the specification (C07 / C13) ---- *)
Outs == Outcomes(st.h, Ops, Pre, EnvObjs, EnvObjs)
\* a rejected invocation evaluates nothing
RejectEvaluatesNothing ==
  IsCase => \A i \in 1..Len(st.h) : st.h[i].op = "invoke" /\ Outs[i].class = "error" =>
     LET cs == CompileSteps(st.h) k == cs[st.h[i].call]
         c == CompileStep(Ops, Pre, st.h[k].src, EnvObjs[st.h[k].tenv].binds) IN
     c.acc = "yes" /\ ~EnvOK(c.tenv, VEnvOfBinds(EnvObjs[st.h[i].venv].binds)) => Outs[i].log = <<>>
\* the outcome of a step depends only on the contents of the objects it names:
\* the same step alone, on fresh copies, has the same outcome
ContentsOnly ==
  IsCase => \A i \in 1..Len(st.h) : st.h[i].op = "invoke" =>
     LET cs == CompileSteps(st.h) k == cs[st.h[i].call] IN
     Outs[i] = StepOutcome(<<st.h[k], Invoke(1, st.h[i].venv)>>, 2, Ops, Pre, EnvObjs, EnvObjs)
NeverStuck == IsCase => \A i \in 1..Len(st.h) : Outs[i].class # "stuck"
=============================================================================
