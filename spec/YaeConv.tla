---------------------------- MODULE YaeConv ----------------------------
(***************************************************************************)
(* Host-data conversion (conv/{val,type,typeenv,valenv}.go) over           *)
(* descriptors of Go values.  A Go type:                                   *)
(*   [g |-> "int" | "int8" | ... | "float64" | "bool" | "string" | "time"  *)
(*          | "iface" | "chan" | "func"]                                   *)
(*   [g |-> "ptr", to]  [g |-> "slice", el]  [g |-> "array", el, n]        *)
(*   [g |-> "map", key, el]                                                *)
(*   [g |-> "struct", fs |-> << [name, tag, t], ... >>]   tag: the raw     *)
(*          content of the `yae:"..."` struct tag                          *)
(* A Go value carries its static type t and its content:                   *)
(*   numbers [t, n]; bool [t, b]; string [t, s]; time [t, sec, zone]       *)
(*   ptr [t, nil, to]; slice [t, nil, els]; array [t, els];                *)
(*   map [t, nil, ents |-> <<[key, val]>>]; struct [t, fs |-> <<gv>>];     *)
(*   iface [t, nil, dyn]; chan / func [t]                                  *)
(***************************************************************************)
EXTENDS YaeEval

MaxLevel == 100
NumKinds == {"int", "int8", "int16", "int32", "int64", "uint", "uint8", "uint16", "uint32", "uint64", "float32", "float64"}
CvOk(v) == [ok |-> TRUE, v |-> v]
CvNo(why) == [ok |-> FALSE, why |-> why]
TyOk(t) == [ok |-> TRUE, t |-> t]
TyNo(why) == [ok |-> FALSE, why |-> why]

(* ---- struct tags: name[,maybe] with spaces trimmed, "maybe" case-insensitive (conv.parseTag) ---- *)
TrimSp(s) == LET a == IF \E i \in 1..Len(s) : s[i] # 32 THEN CHOOSE i \in 1..Len(s) : s[i] # 32 /\ \A j \in 1..(i - 1) : s[j] = 32 ELSE Len(s) + 1
                 b == IF \E i \in 1..Len(s) : s[i] # 32 THEN CHOOSE i \in 1..Len(s) : s[i] # 32 /\ \A j \in (i + 1)..Len(s) : s[j] = 32 ELSE 0
             IN Sub(s, a, b)
LowerS(s) == [i \in 1..Len(s) |-> IF s[i] >= 65 /\ s[i] <= 90 THEN s[i] + 32 ELSE s[i]]
SplitComma(s) ==      \* strings.Split(s, ",")
  LET commas == SelectSeq([i \in 1..Len(s) |-> i], LAMBDA i : s[i] = 44)
      bounds == <<0>> \o commas \o <<Len(s) + 1>>
  IN [k \in 1..(Len(commas) + 1) |-> Sub(s, bounds[k] + 1, bounds[k + 1] - 1)]
ParseTag(name, tag) ==
  LET xs == SplitComma(tag)
      fst == TrimSp(xs[1]) IN
  [name |-> IF fst # <<>> THEN fst ELSE name,
   maybe |-> Len(xs) > 1 /\ LowerS(TrimSp(xs[2])) = N_maybe]

(* ---- conv.typeOf(reflect.Type, lv): the type a Go TYPE converts to ---- *)
RECURSIVE StaticType(_, _)
StaticType(gt, lv) ==
  IF lv > MaxLevel THEN TyNo("depth")
  ELSE CASE gt.g = "ptr" -> StaticType(gt.to, lv)           \* pointers are dereferenced in place (no level)
    [] gt.g = "time" -> TyOk(TTime)
    [] gt.g = "bool" -> TyOk(TBool)
    [] gt.g \in NumKinds -> TyOk(TNum)
    [] gt.g = "string" -> TyOk(TStr)
    [] gt.g \in {"slice", "array"} -> LET e == StaticType(gt.el, lv + 1) IN IF e.ok THEN TyOk(TList(e.t)) ELSE e
    [] gt.g = "map" -> LET k == StaticType(gt.key, lv + 1) IN IF ~k.ok THEN k ELSE
                       LET e == StaticType(gt.el, lv + 1) IN IF ~e.ok THEN e
                       ELSE IF ~Keyable(k.t) THEN TyNo("key-kind") ELSE TyOk(TMap(k.t, e.t))
    [] gt.g = "struct" ->
         LET fts == [i \in 1..Len(gt.fs) |-> StaticType(gt.fs[i].t, lv + 1)] IN
         IF \E i \in 1..Len(fts) : ~fts[i].ok THEN TyNo("field")
         ELSE LET fs == [i \in 1..Len(gt.fs) |->
                          LET pt == ParseTag(gt.fs[i].name, gt.fs[i].tag) IN
                          Fld(pt.name, IF pt.maybe THEN TMaybe(fts[i].t) ELSE fts[i].t)] IN
              IF ~NoDup(FieldNames(fs)) THEN TyNo("dup-field") ELSE TyOk(TObj(fs))
    [] OTHER -> TyNo("unsupported")             \* interface, chan, func, ...

(* ---- conv.valOf(reflect.Value, lv) ---- *)
IsNilGV(gv) == gv.t.g \in {"ptr", "slice", "map", "iface"} /\ gv.nil
\* float64(int) etc.: the number a Go number converts to (exact in the modelled ranges)
RECURSIVE ConvVal(_, _), Deref(_)
\* follow pointers and interfaces to the value they hold; [ok, gv]
Deref(gv) ==
  IF gv.t.g = "ptr" THEN (IF gv.nil THEN [ok |-> FALSE] ELSE Deref(gv.to))
  ELSE IF gv.t.g = "iface" THEN (IF gv.nil THEN [ok |-> FALSE] ELSE Deref(gv.dyn))
  ELSE [ok |-> TRUE, gv |-> gv]
ConvSeq(gvs, lv) == [i \in 1..Len(gvs) |-> ConvVal(gvs[i], lv)]
ConvVal(gv0, lv) ==
  IF lv > MaxLevel THEN CvNo("depth")
  ELSE IF IsNilGV(gv0) THEN CvNo("nil")
  ELSE LET d == Deref(gv0) IN
  IF ~d.ok THEN CvNo("nil-inside")
  ELSE LET gv == d.gv IN
  CASE gv.t.g = "time" -> CvOk(VTime(gv.sec))
    [] gv.t.g = "bool" -> CvOk(VBool(gv.b))
    [] gv.t.g \in NumKinds -> CvOk(VNum(gv.n))
    [] gv.t.g = "string" -> CvOk(VStr(gv.s))
    [] gv.t.g \in {"slice", "array"} ->
         IF gv.els = <<>> THEN (LET st == StaticType(gv.t, lv) IN IF st.ok THEN CvOk(VList(st.t, <<>>)) ELSE CvNo("empty-static"))
         ELSE LET cs == ConvSeq(gv.els, lv + 1) IN
              IF \E i \in 1..Len(cs) : ~cs[i].ok THEN CvNo("elem")
              ELSE LET ty == TList(TypeOfVal(cs[1].v)) IN
                   IF \E i \in 2..Len(cs) : ~TypeEq(TypeOfVal(cs[1].v), TypeOfVal(cs[i].v)) THEN CvNo("mixed")
                   ELSE CvOk(VList(ty, [i \in 1..Len(cs) |-> cs[i].v]))
    [] gv.t.g = "map" ->
         IF gv.ents = <<>> THEN (LET st == StaticType(gv.t, lv) IN IF st.ok THEN CvOk(VMap(st.t, <<>>)) ELSE CvNo("empty-static"))
         ELSE LET ks == ConvSeq([i \in 1..Len(gv.ents) |-> gv.ents[i].key], lv + 1)
                  vs == ConvSeq([i \in 1..Len(gv.ents) |-> gv.ents[i].val], lv + 1) IN
              IF (\E i \in 1..Len(ks) : ~ks[i].ok) \/ (\E i \in 1..Len(vs) : ~vs[i].ok) THEN CvNo("entry")
              ELSE IF \E i \in 2..Len(ks) : ~TypeEq(TypeOfVal(ks[1].v), TypeOfVal(ks[i].v)) \/ ~TypeEq(TypeOfVal(vs[1].v), TypeOfVal(vs[i].v)) THEN CvNo("mixed")
              ELSE IF ~Keyable(TypeOfVal(ks[1].v)) THEN CvNo("key-kind")
              ELSE IF \E i \in 1..Len(ks) : ~KeyKnown(ks[i].v) THEN [ok |-> TRUE, v |-> [k |-> "ood"]]
              \* two Go keys that convert to ONE key (an instant given in two zones, NaNs, 1 and 1.0 under interface{}):
              \* inconsistent data, an error -- not "whichever entry Go's map iteration visits last"
              ELSE IF \E i, j \in 1..Len(ks) : i < j /\ ks[i].v.k = ks[j].v.k /\ KeyText(ks[i].v) = KeyText(ks[j].v) THEN CvNo("dup-key")
              ELSE CvOk(VMap(TMap(TypeOfVal(ks[1].v), TypeOfVal(vs[1].v)),
                             FoldLeft(LAMBDA ents, i : MapPut(ents, ks[i].v, vs[i].v), <<>>, [i \in 1..Len(ks) |-> i])))
    [] gv.t.g = "struct" ->
         IF gv.t.fs = <<>> THEN CvOk(VObj(TObj(<<>>), <<>>))
         ELSE LET fvs == [i \in 1..Len(gv.fs) |->
                           LET ft == gv.t.fs[i]
                               pt == ParseTag(ft.name, ft.tag)
                               f == gv.fs[i] IN
                           IF IsNilGV(f) THEN
                             (LET st == StaticType(ft.t, 0) IN        \* (level 0, as the code does)
                              IF st.ok THEN [ok |-> TRUE, n |-> pt.name, v |-> VNothing(st.t)] ELSE [ok |-> FALSE])
                           ELSE LET c == ConvVal(f, lv + 1) IN
                                IF ~c.ok THEN [ok |-> FALSE]
                                ELSE [ok |-> TRUE, n |-> pt.name, v |-> IF pt.maybe THEN VJust(TypeOfVal(c.v), c.v) ELSE c.v]] IN
              IF \E i \in 1..Len(fvs) : ~fvs[i].ok THEN CvNo("field")
              ELSE IF ~NoDup([i \in 1..Len(fvs) |-> fvs[i].n]) THEN CvNo("dup-field")
              ELSE CvOk(VObj(TObj([i \in 1..Len(fvs) |-> Fld(fvs[i].n, TypeOfVal(fvs[i].v))]), [i \in 1..Len(fvs) |-> fvs[i].v]))
    [] OTHER -> CvNo("unsupported")

\* conv.TypeOf: the type of the converted value, else the static type
TypeOfGo(gv) == LET c == ConvVal(gv, 0) IN
                IF c.ok THEN (IF c.v.k = "ood" THEN [ok |-> TRUE, t |-> [k |-> "ood"]] ELSE TyOk(TypeOfVal(c.v)))
                ELSE IF IsNilGV(gv) /\ gv.t.g = "iface" THEN TyNo("nil-interface")       \* reflect.ValueOf(nil): no type at all
                ELSE StaticType(gv.t, 0)

(* ---- the properties (C15) ---- *)
RECURSIVE HasIface(_), NilablesCovered(_, _)
HasIface(gt) ==
  CASE gt.g = "iface" -> TRUE
    [] gt.g = "ptr" -> HasIface(gt.to)
    [] gt.g \in {"slice", "array"} -> HasIface(gt.el)
    [] gt.g = "map" -> HasIface(gt.key) \/ HasIface(gt.el)
    [] gt.g = "struct" -> \E i \in 1..Len(gt.fs) : HasIface(gt.fs[i].t)
    [] OTHER -> FALSE
\* every nil-able part is non-nil, or is a struct field declared optional
NilablesCovered(gv, optionalField) ==
  CASE gv.t.g = "ptr" -> IF gv.nil THEN optionalField ELSE NilablesCovered(gv.to, FALSE)
    [] gv.t.g = "slice" -> IF gv.nil THEN optionalField ELSE \A i \in 1..Len(gv.els) : NilablesCovered(gv.els[i], FALSE)
    [] gv.t.g = "array" -> \A i \in 1..Len(gv.els) : NilablesCovered(gv.els[i], FALSE)
    [] gv.t.g = "map" -> IF gv.nil THEN optionalField ELSE \A i \in 1..Len(gv.ents) : NilablesCovered(gv.ents[i].val, FALSE)
    [] gv.t.g = "struct" -> \A i \in 1..Len(gv.fs) : NilablesCovered(gv.fs[i], ParseTag(gv.t.fs[i].name, gv.t.fs[i].tag).maybe)
    [] OTHER -> TRUE
=============================================================================
