package main

// family "eval": a core tree + environment + user functions goes through the
// real pipeline (source text -> lexer -> parser -> desugar -> check -> each of the
// four back ends); recorded: front-end tree, acceptance, inferred type, and per
// back end the outcome class, deep value projection, host-call log, stdout.

import (
	"encoding/json"
	"fmt"
	"io"
	"math/rand"
	"os"

	"github.com/goghcrow/yae"
	"github.com/goghcrow/yae/closure"
	"github.com/goghcrow/yae/compiler"
	"github.com/goghcrow/yae/fun"
	"github.com/goghcrow/yae/interp"
	"github.com/goghcrow/yae/parser/ast"
	"github.com/goghcrow/yae/trans"
	"github.com/goghcrow/yae/types"
	"github.com/goghcrow/yae/val"
	"github.com/goghcrow/yae/vm"
)

func init() {
	families["eval"] = &Family{Gen: genPrograms, Run: runEval}
}

var backends = []struct {
	name string
	comp compiler.Compiler
}{
	{"vm", vm.Compile},
	{"vmct", vm.CompileCallThreaded},
	{"closure", closure.Compile},
	{"interp", interp.Interp},
}

// ---- stdout capture: yae's print / union write to os.Stdout, which is also the
// worker's protocol channel; the worker swaps os.Stdout for a scratch file.
var protoOut *os.File
var capFile *os.File

func initCapture() {
	if capFile != nil {
		return
	}
	f, err := os.CreateTemp("", "yaeverif-stdout-*")
	if err != nil {
		panic(err)
	}
	os.Remove(f.Name())
	capFile = f
	os.Stdout = f
}

func captured(f func()) string {
	initCapture()
	start, _ := capFile.Seek(0, io.SeekEnd)
	f()
	end, _ := capFile.Seek(0, io.SeekEnd)
	if end == start {
		return ""
	}
	buf := make([]byte, end-start)
	capFile.ReadAt(buf, start)
	if end > 1<<20 {
		capFile.Truncate(0)
		capFile.Seek(0, io.SeekStart)
	}
	return string(buf)
}

func envFromJ(envJ A) (func() *types.Env, func() *val.Env) {
	type b struct {
		n  string
		v  *val.Val
		dt *types.Type // declared type, when the environment declares the name under another (equal) type than the value's own
	}
	var bs []b
	for _, x := range envJ {
		bd := b{n: str(obj(x)["n"]), v: valFromJ(obj(obj(x)["v"]))}
		if dt, ok := obj(x)["dt"]; ok {
			bd.dt = typeFromJ(obj(dt))
		}
		bs = append(bs, bd)
	}
	te := func() *types.Env {
		e := types.NewEnv()
		for _, x := range bs {
			if x.dt != nil {
				e.Put(x.n, x.dt)
			} else {
				e.Put(x.n, x.v.Type)
			}
		}
		return e
	}
	ve := func() *val.Env {
		e := val.NewEnv()
		for _, x := range bs {
			e.Put(x.n, x.v)
		}
		return e
	}
	return te, ve
}

// post: user functions registered after the engine's first compilation (which registers the built-ins)
var curPost A

func newEngine(pre A, comp compiler.Compiler) *yae.Expr {
	ex := yae.NewExpr()
	userFnIds = map[*val.Val]string{}
	reg := func(id string) {
		f := userFuns[id]()
		userFnIds[f] = id
		ex.RegisterFun(f)
	}
	for _, id := range pre {
		reg(id.(string))
	}
	if comp != nil {
		ex.UseCompiler(comp)
	}
	if len(curPost) > 0 {
		if _, err := ex.Compile("1", types.NewEnv()); err != nil {
			panic("warm-up compile failed: " + err.Error())
		}
		for _, id := range curPost {
			reg(id.(string))
		}
	}
	return ex
}

// the function table of an engine, rebuilt outside it (the engine's own is unexported):
// user functions registered before the first compilation, then the built-ins
func funTable(pre A) *types.Env {
	tbl := types.NewEnv()
	for _, id := range pre {
		tbl.RegisterFun(userFuns[id.(string)]().Type)
	}
	for _, f := range fun.BuiltIn() {
		tbl.RegisterFun(f.Type)
	}
	for _, id := range curPost {
		tbl.RegisterFun(userFuns[id.(string)]().Type)
	}
	return tbl
}

type outcome struct {
	v   *val.Val
	err error
	pan interface{}
}

func invoke(f func() (*val.Val, error)) (o outcome) {
	defer func() {
		if r := recover(); r != nil {
			o.pan = r
		}
	}()
	o.v, o.err = f()
	return
}

func outcomeJ(o outcome, out string) J {
	j := J{"log": callLog, "stdout": cps(out)}
	if callLog == nil {
		j["log"] = A{}
	}
	switch {
	case o.pan != nil:
		j["class"] = "fail"
		j["how"] = "panic"
		j["kind"] = classify(o.pan)
		j["msg"] = clip(fmt.Sprint(o.pan), 160)
	case o.err != nil:
		j["class"] = "fail"
		j["how"] = "error"
		j["kind"] = classify(o.err.Error())
		j["msg"] = clip(o.err.Error(), 160)
	default:
		j["class"] = "value"
		j["v"] = valJ(o.v)
		// the canonical rendering (val.String) of the result; a rendering that panics is a value-less outcome
		func() {
			defer func() {
				if r := recover(); r != nil {
					j["rtext"] = cps("<panic: " + clip(fmt.Sprint(r), 60) + ">")
				}
			}()
			if o.v != nil {
				j["rtext"] = cps(o.v.String())
			}
		}()
	}
	return j
}

// standard environments: cases may name one ("envid") instead of carrying env and pre;
// the definitions are emitted by TLC (Gen_Eval, mode "envs") into the file $VERIF_ENVS
var stdEnvs map[string]J

func resolveEnv(c J) {
	id, ok := c["envid"].(string)
	if !ok {
		return
	}
	if stdEnvs == nil {
		stdEnvs = map[string]J{}
		f, err := os.Open(os.Getenv("VERIF_ENVS"))
		if err != nil {
			panic("VERIF_ENVS: " + err.Error())
		}
		defer f.Close()
		dec := json.NewDecoder(f)
		for {
			var j J
			if err := dec.Decode(&j); err != nil {
				break
			}
			stdEnvs[j["envid"].(string)] = j
		}
	}
	d, ok := stdEnvs[id]
	if !ok {
		panic("unknown envid " + id)
	}
	c["env"] = d["env"]
	c["pre"] = d["pre"]
	c["post"] = d["post"]
}

func runEval(c J) J {
	resolveEnv(c)
	defer func() {
		if _, ok := c["envid"]; ok {
			delete(c, "env")
			delete(c, "pre")
			delete(c, "post")
		}
	}()
	e := obj(c["e"])
	pre := arr(c["pre"])
	curPost = arr(c["post"])
	style := 0
	if s, ok := c["style"]; ok {
		style = toInt(s)
	}
	via, _ := c["via"].(string)
	if c["big"] == true {
		via = "ast" // programs at the limit of the VM's encoding: 50 000 characters take the lexer a minute
	}
	tenv, venv := envFromJ(arr(c["env"]))
	obs := J{}

	var src string
	var desugared func() ast.Expr
	if via == "ast" {
		desugared = func() ast.Expr { return astFromJ(e) }
		obs["src"] = A{}
		obs["ast"] = astJ(desugared(), false)
	} else {
		src = renderSrc(e, style)
		obs["src"] = cps(src)
		var parsed ast.Expr
		cl, msg := guard(func() { parsed = newEngine(pre, nil).Parse(src) })
		if cl != "ok" {
			obs["front"] = J{"class": "syntax", "msg": msg}
			obs["ast"] = J{"k": "none"}
		} else {
			obs["front"] = J{"class": "ok"}
			obs["ast"] = astJ(trans.Desugar(parsed), false)
			desugared = func() ast.Expr { return trans.Desugar(newEngine(pre, nil).Parse(src)) }
		}
	}

	// inferred type, with the engine's function table rebuilt outside the engine
	if desugared != nil {
		var ty *types.Type
		cl, msg := guard(func() { ty = types.Check(desugared(), tenv().Inherit(funTable(pre))) })
		if cl == "ok" {
			obs["infer"] = J{"acc": true, "ty": typeJ(ty)}
		} else {
			obs["infer"] = J{"acc": false, "ty": J{"k": "none"}, "msg": msg}
		}
	} else {
		obs["infer"] = J{"acc": false, "ty": J{"k": "none"}, "msg": "syntax"}
	}

	runs := J{}
	for _, b := range backends {
		ex := newEngine(pre, b.comp)
		var call func() (*val.Val, error)
		var cerr error
		if via == "ast" {
			var clo compiler.Closure
			cl, msg := guard(func() { clo = ex.CompileExpr(desugared(), tenv()) })
			if cl != "ok" {
				cerr = fmt.Errorf("%s", msg)
			} else {
				call = func() (*val.Val, error) { return clo(venv()), nil }
			}
		} else {
			var callable yae.Callable
			var pan interface{}
			func() {
				defer func() { pan = recover() }()
				callable, cerr = ex.Compile(src, tenv())
			}()
			if pan != nil {
				runs[b.name] = J{"class": "compile-panic", "msg": clip(fmt.Sprint(pan), 160), "log": A{}, "stdout": A{}}
				continue
			}
			if cerr == nil {
				call = func() (*val.Val, error) { return callable(venv()) }
			}
		}
		if cerr != nil {
			runs[b.name] = J{"class": "reject", "msg": clip(cerr.Error(), 160), "log": A{}, "stdout": A{}}
			continue
		}
		callLog = nil
		var o outcome
		out := captured(func() { o = invoke(call) })
		runs[b.name] = outcomeJ(o, out)
	}
	obs["runs"] = runs
	return obs
}

func genPrograms(rng *rand.Rand, n int, mode string) []J { return genProgs(rng, n, mode) }
