package main

// family "vm" (C03, C11): the bytecode the real compiler emits (bytes, constant
// pool, thunk bodies) and the instruction-by-instruction trace of the switch
// dispatch loop, for TLC to verify (structure) and to replay on the specification's
// machine (steps, outcome, host-call log).

import (
	"fmt"

	"github.com/goghcrow/yae"
	"github.com/goghcrow/yae/compiler"
	"github.com/goghcrow/yae/fun"
	"github.com/goghcrow/yae/parser/ast"
	"github.com/goghcrow/yae/types"
	"github.com/goghcrow/yae/val"
	"github.com/goghcrow/yae/vm"
)

func init() {
	families["vm"] = &Family{Gen: genPrograms, Run: runVM}
}

var builtinIds = map[*val.Val]string{
	fun.ABS_NUM: "ABS_NUM", fun.ADD_NUM: "ADD_NUM", fun.ADD_NUM_NUM: "ADD_NUM_NUM", fun.ADD_STR_STR: "ADD_STR_STR",
	fun.CEIL_NUM: "CEIL_NUM", fun.DIFF_LIST_LIST: "DIFF_LIST_LIST", fun.DIV_NUM_NUM: "DIV_NUM_NUM",
	fun.EQ_BOOL_BOOL: "EQ_BOOL_BOOL", fun.EQ_LIST_LIST: "EQ_LIST_LIST", fun.EQ_MAP_MAP: "EQ_MAP_MAP",
	fun.EQ_NUM_NUM: "EQ_NUM_NUM", fun.EQ_STR_STR: "EQ_STR_STR", fun.EQ_TIME_TIME: "EQ_TIME_TIME",
	fun.EXP_NUM_NUM: "EXP_NUM_NUM", fun.FLOOR_NUM: "FLOOR_NUM", fun.GET_LIST_NUM_ANY: "GET_LIST_NUM_ANY",
	fun.GET_MAP_ANY_ANY: "GET_MAP_ANY_ANY", fun.GET_MAYBE: "GET_MAYBE", fun.GE_NUM_NUM: "GE_NUM_NUM",
	fun.GE_TIME_TIME: "GE_TIME_TIME", fun.GT_NUM_NUM: "GT_NUM_NUM", fun.GT_TIME_TIME: "GT_TIME_TIME",
	fun.IF_BOOL_ANY_ANY: "IF_BOOL_ANY_ANY", fun.INTERSECT_LIST_LIST: "INTERSECT_LIST_LIST",
	fun.ISSET_MAP_ANY: "ISSET_MAP_ANY", fun.LEN_LIST: "LEN_LIST", fun.LEN_MAP: "LEN_MAP", fun.LEN_STR: "LEN_STR",
	fun.LE_NUM_NUM: "LE_NUM_NUM", fun.LE_TIME_TIME: "LE_TIME_TIME", fun.LOGIC_AND_BOOL_BOOL: "LOGIC_AND_BOOL_BOOL",
	fun.LOGIC_NOT_BOOL: "LOGIC_NOT_BOOL", fun.LOGIC_OR_BOOL_BOOL: "LOGIC_OR_BOOL_BOOL", fun.LT_NUM_NUM: "LT_NUM_NUM",
	fun.LT_TIME_TIME: "LT_TIME_TIME", fun.MATCH_STR_STR: "MATCH_STR_STR", fun.MAX_LIST: "MAX_LIST",
	fun.MAX_NUM_NUM: "MAX_NUM_NUM", fun.MIN_LIST: "MIN_LIST", fun.MIN_NUM_NUM: "MIN_NUM_NUM",
	fun.MOD_NUM_NUM: "MOD_NUM_NUM", fun.MUL_NUM_NUM: "MUL_NUM_NUM", fun.NE_BOOL_BOOL: "NE_BOOL_BOOL",
	fun.NE_LIST_LIST: "NE_LIST_LIST", fun.NE_MAP_MAP: "NE_MAP_MAP", fun.NE_NUM_NUM: "NE_NUM_NUM",
	fun.NE_STR_STR: "NE_STR_STR", fun.NE_TIME_TIME: "NE_TIME_TIME", fun.PRINT_ANY: "PRINT_ANY",
	fun.ROUND_NUM: "ROUND_NUM", fun.STRING_ANY: "STRING_ANY", fun.STRTOTIME_STR: "STRTOTIME_STR",
	fun.SUB_NUM: "SUB_NUM", fun.SUB_NUM_NUM: "SUB_NUM_NUM", fun.SUB_TIME_TIME: "SUB_TIME_TIME",
	fun.UNION_LIST_LIST: "UNION_LIST_LIST",
}

// identity of user function values created for the current engine
var userFnIds = map[*val.Val]string{}

func constJ(c interface{}, ids map[*vm.Bytecode]int, idx int) J {
	switch x := c.(type) {
	case string:
		return J{"ck": "name", "n": cps(x)}
	case *types.Type:
		return J{"ck": "type", "t": typeJ(x)}
	case *val.Val:
		if id, ok := builtinIds[x]; ok {
			return J{"ck": "fun", "id": id}
		}
		if id, ok := userFnIds[x]; ok {
			return J{"ck": "fun", "id": id}
		}
		if x.Type != nil && x.Type.Kind == types.KFun && x.Type.Fun().Name == "thunk" && len(x.Type.Fun().Param) == 0 {
			body := vm.ThunkBody(x)
			ids[body] = idx
			return J{"ck": "thunk", "code": bytesJ(body.Code()), "ret": typeJ(x.Type.Fun().Return)}
		}
		return J{"ck": "val", "v": valJ(x)}
	case nil:
		return J{"ck": "nil"}
	}
	return J{"ck": "unknown", "go": fmt.Sprintf("%T", c)}
}

func bytesJ(b []byte) A {
	out := make(A, len(b))
	for i, x := range b {
		out[i] = int(x)
	}
	return out
}

func runVM(c J) J {
	resolveEnv(c)
	defer func() {
		if _, ok := c["envid"]; ok {
			delete(c, "env")
			delete(c, "pre")
			delete(c, "post")
		}
	}()
	e := obj(c["e"])
	pre := arr(c["pre"])
	curPost = arr(c["post"])
	tenv, venv := envFromJ(arr(c["env"]))
	obs := J{}
	src := renderSrc(e, 0)
	obs["src"] = cps(src)

	var bc *vm.Bytecode
	comp := func(expr ast.Expr, env1 *val.Env) compiler.Closure {
		bc = vm.CompileBytecode(expr, env1)
		b := bc
		return func(env *val.Env) *val.Val { return vm.RunSwitch(b, env) }
	}
	ex := newEngine(pre, comp)
	var callable yae.Callable
	var cerr error
	var pan interface{}
	big := c["big"] == true
	if big {
		// a program at the limit of the encoding: built as a tree (lexing 50 000 characters takes the lexer a minute),
		// compiled, and only its bytecode exported -- it is not run
		delete(obs, "src")
		func() {
			defer func() {
				if r := recover(); r != nil {
					cerr = fmt.Errorf("%v", r)
				}
			}()
			_ = ex.CompileExpr(astFromJ(e), tenv())
		}()
	} else {
		func() {
			defer func() { pan = recover() }()
			callable, cerr = ex.Compile(src, tenv())
		}()
	}
	if pan != nil {
		obs["acc"] = false
		obs["class"] = "compile-panic"
		obs["msg"] = clip(fmt.Sprint(pan), 160)
		return obs
	}
	if cerr != nil || bc == nil {
		obs["acc"] = false
		obs["class"] = "reject"
		if cerr != nil {
			obs["msg"] = clip(cerr.Error(), 160)
		}
		return obs
	}
	obs["acc"] = true
	ids := map[*vm.Bytecode]int{bc: 0}
	pool := A{}
	for i, k := range bc.Consts() {
		pool = append(pool, constJ(k, ids, i))
	}
	obs["code"] = bytesJ(bc.Code())
	obs["pool"] = pool
	if big {
		return obs
	}

	trace := A{}
	vm.StepHook = func(b *vm.Bytecode, pc int, op byte, sp int) {
		if len(trace) > 200000 {
			return
		}
		name, _ := vm.OpName(op)
		id, ok := ids[b]
		if !ok {
			id = -1
		}
		trace = append(trace, J{"b": id, "pc": pc, "op": name, "sp": sp})
	}
	callLog = nil
	var o outcome
	out := captured(func() { o = invoke(func() (*val.Val, error) { return callable(venv()) }) })
	vm.StepHook = nil
	obs["run"] = outcomeJ(o, out)
	obs["trace"] = trace
	return obs
}
