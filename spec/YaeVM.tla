---------------------------- MODULE YaeVM ----------------------------
(***************************************************************************)
(* The bytecode back end: the compilation scheme of vm/compiler.go and     *)
(* vm/intrinsic.go (post-order emission, intrinsic opcodes, conditional    *)
(* jumps emitted as placeholders and patched, deferred arguments compiled  *)
(* to thunk bodies that share one constant pool), the virtual machine of   *)
(* vm/switchthread.go as a step function over an explicit frame stack, and *)
(* the structural verifier of C11.                                         *)
(*                                                                         *)
(* bytecode:  [code |-> Seq(0..255), pool |-> Seq(constant)]               *)
(* constant:  [ck |-> "val", v] | [ck |-> "type", t] | [ck |-> "name", n]  *)
(*          | [ck |-> "fun", id] | [ck |-> "thunk", code, ret]             *)
(* Instructions are identified by NAME (the code exports opcode.String()). *)
(***************************************************************************)
EXTENDS YaeEval

OpNames == <<"OP_NOP", "OP_RETURN", "OP_CONST", "OP_LOAD",
  "OP_ADD_NUM", "OP_ADD_NUM_NUM", "OP_ADD_STR_STR", "OP_SUB_NUM", "OP_SUB_NUM_NUM", "OP_SUB_TIME_TIME",
  "OP_MUL_NUM_NUM", "OP_DIV_NUM_NUM", "OP_MOD_NUM_NUM", "OP_EXP_NUM_NUM",
  "OP_ABS_NUM", "OP_CEIL_NUM", "OP_FLOOR_NUM", "OP_ROUND_NUM", "OP_MIN_NUM_NUM", "OP_MAX_NUM_NUM",
  "OP_EQ_NUM_NUM", "OP_EQ_BOOL_BOOL", "OP_EQ_STR_STR", "OP_EQ_TIME_TIME", "OP_EQ_LIST_LIST", "OP_EQ_MAP_MAP",
  "OP_NE_NUM_NUM", "OP_NE_BOOL_BOOL", "OP_NE_STR_STR", "OP_NE_TIME_TIME", "OP_NE_LIST_LIST", "OP_NE_MAP_MAP",
  "OP_LT_NUM_NUM", "OP_LT_TIME_TIME", "OP_LE_NUM_NUM", "OP_LE_TIME_TIME",
  "OP_GT_NUM_NUM", "OP_GT_TIME_TIME", "OP_GE_NUM_NUM", "OP_GE_TIME_TIME",
  "OP_NEW_LIST", "OP_NEW_MAP", "OP_NEW_OBJ", "OP_LIST_LOAD", "OP_MAP_LOAD", "OP_OBJ_LOAD",
  "OP_LEN_STR", "OP_LEN_LIST", "OP_LEN_MAP", "OP_STRTOTIME_STR",
  "OP_CALL_BY_VALUE", "OP_CALL_BY_NEED", "OP_DYNAMIC_CALL", "OP_GET_MAYBE",
  "OP_IF_TRUE", "OP_LOGICAL_NOT", "OP_JUMP">>
OpByte(name) == (CHOOSE i \in 1..Len(OpNames) : OpNames[i] = name) - 1
OpName(b) == IF b + 1 <= Len(OpNames) THEN OpNames[b + 1] ELSE "?"

\* built-ins with a dedicated opcode (vm/intrinsic.go, call by value); opcode = "OP_" \o id
Unary1 == {"ADD_NUM", "SUB_NUM", "ABS_NUM", "CEIL_NUM", "FLOOR_NUM", "ROUND_NUM", "LEN_STR", "LEN_LIST", "LEN_MAP", "STRTOTIME_STR"}
Binary2 == {"ADD_NUM_NUM", "ADD_STR_STR", "SUB_NUM_NUM", "SUB_TIME_TIME", "MUL_NUM_NUM", "DIV_NUM_NUM", "MOD_NUM_NUM",
            "EXP_NUM_NUM", "MIN_NUM_NUM", "MAX_NUM_NUM",
            "EQ_NUM_NUM", "EQ_BOOL_BOOL", "EQ_STR_STR", "EQ_TIME_TIME", "EQ_LIST_LIST", "EQ_MAP_MAP",
            "NE_NUM_NUM", "NE_BOOL_BOOL", "NE_STR_STR", "NE_TIME_TIME", "NE_LIST_LIST", "NE_MAP_MAP",
            "LT_NUM_NUM", "LT_TIME_TIME", "LE_NUM_NUM", "LE_TIME_TIME", "GT_NUM_NUM", "GT_TIME_TIME",
            "GE_NUM_NUM", "GE_TIME_TIME", "GET_MAYBE"}
IntrinsicCBV == Unary1 \cup Binary2
\* opcode name -> built-in id
IdOfOp(op) == CHOOSE id \in IntrinsicCBV : "OP_" \o id = op
IntrinsicCBN == {"IF_BOOL_ANY_ANY", "LOGIC_AND_BOOL_BOOL", "LOGIC_OR_BOOL_BOOL", "LOGIC_NOT_BOOL"}

Hi(n) == n \div 256
Lo(n) == n % 256
U16(code, at) == code[at] * 256 + code[at + 1]          \* big endian; `at` is a 1-based position

(***************************************************************************)
(* Compilation.  State threaded through: [code, pool, ok].                 *)
(***************************************************************************)
CS(code, pool) == [code |-> code, pool |-> pool, ok |-> TRUE]
Refuse(cs) == [cs EXCEPT !.ok = FALSE]
EmitB(cs, bytes) == [cs EXCEPT !.code = @ \o bytes]
EmitOp(cs, name) == EmitB(cs, <<OpByte(name)>>)
\* emitUint16 / emitUint8 assert that the operand fits (else the compilation is refused)
EmitU16(cs, n) == IF n > 65535 THEN Refuse(cs) ELSE EmitB(cs, <<Hi(n), Lo(n)>>)
EmitU8(cs, n) == IF n > 255 THEN Refuse(cs) ELSE EmitB(cs, <<n>>)
\* emitConst: append to the shared pool, emit its 16-bit index
EmitConst(cs, c) == EmitU16([cs EXCEPT !.pool = Append(@, c)], Len(cs.pool))
Patch16(cs, at, n) == IF n > 65535 THEN Refuse(cs)
                      ELSE [cs EXCEPT !.code = [@ EXCEPT ![at] = Hi(n), ![at + 1] = Lo(n)]]
KVal(v) == [ck |-> "val", v |-> v]
KType(t) == [ck |-> "type", t |-> t]
KName(n) == [ck |-> "name", n |-> n]
KFun(id) == [ck |-> "fun", id |-> id]
KThunk(code, ret) == [ck |-> "thunk", code |-> code, ret |-> ret]

RECURSIVE Comp(_, _, _), CompSeq(_, _, _, _), CompCond(_, _, _, _, _)
CompSeq(cs, es, i, funs) == IF i > Len(es) \/ ~cs.ok THEN cs ELSE CompSeq(Comp(cs, es[i], funs), es, i + 1, funs)
\* a separate bytecode sharing the pool, ended by RETURN (Compiler.Compile)
CompBody(pool, e, funs) == LET b == Comp(CS(<<>>, pool), e, funs) IN EmitOp(b, "OP_RETURN")

CompCond(cs, c, t, f, funs) ==
  LET c1 == EmitOp(Comp(cs, c, funs), "OP_IF_TRUE")
      ph1 == Len(c1.code) + 1
      c2 == Comp(EmitB(c1, <<0, 0>>), t, funs)
      c3 == EmitOp(c2, "OP_JUMP")
      ph2 == Len(c3.code) + 1
      c4 == EmitB(c3, <<0, 0>>)
      branchFalse == Len(c4.code)            \* 0-based offset of the else branch
      c5 == Comp(c4, f, funs)
      next == Len(c5.code)
  IN Patch16(Patch16(c5, ph1, branchFalse), ph2, next)

Comp(cs, e, funs) ==
  IF ~cs.ok THEN cs ELSE
  CASE e.k \in {"num", "str", "bool", "time"} -> EmitConst(EmitOp(cs, "OP_CONST"), KVal([k |-> e.k, v |-> e.v]))
    [] e.k = "list" -> LET c1 == EmitConst(EmitOp(CompSeq(cs, e.els, 1, funs), "OP_NEW_LIST"), KType(e.ty))
                       IN IF c1.ok THEN EmitU16(c1, Len(e.els)) ELSE c1
    [] e.k = "map" -> LET flat == [i \in 1..(2 * Len(e.ps)) |-> IF i % 2 = 1 THEN e.ps[(i + 1) \div 2].key ELSE e.ps[i \div 2].val]
                          c1 == EmitConst(EmitOp(CompSeq(cs, flat, 1, funs), "OP_NEW_MAP"), KType(e.ty))
                      IN IF c1.ok THEN EmitU16(c1, Len(e.ps)) ELSE c1
    [] e.k = "obj" -> EmitConst(EmitOp(CompSeq(cs, [i \in 1..Len(e.fs) |-> e.fs[i].v], 1, funs), "OP_NEW_OBJ"), KType(e.ty))
    [] e.k = "id" -> EmitConst(EmitOp(cs, "OP_LOAD"), KName(e.n))
    [] e.k = "sub" -> EmitOp(Comp(Comp(cs, e.x, funs), e.i, funs), IF e.xk = "list" THEN "OP_LIST_LOAD" ELSE "OP_MAP_LOAD")
    [] e.k = "mem" -> EmitConst(EmitOp(Comp(cs, e.x, funs), "OP_OBJ_LOAD"), KName(e.n))
    [] e.k = "call" ->
         IF e.res.kind = "dyn" THEN
           LET c1 == EmitOp(CompSeq(Comp(cs, e.f, funs), e.args, 1, funs), "OP_DYNAMIC_CALL") IN
           IF c1.ok THEN EmitU8(c1, Len(e.args)) ELSE c1
         ELSE
           LET f == funs[e.res.fi] IN
           CASE f.id = "IF_BOOL_ANY_ANY" -> CompCond(cs, e.args[1], e.args[2], e.args[3], funs)
             [] f.id = "LOGIC_AND_BOOL_BOOL" -> CompCond(cs, e.args[1], e.args[2], [k |-> "bool", v |-> FALSE], funs)
             [] f.id = "LOGIC_OR_BOOL_BOOL" -> CompCond(cs, e.args[1], [k |-> "bool", v |-> TRUE], e.args[2], funs)
             [] f.id = "LOGIC_NOT_BOOL" -> EmitOp(Comp(cs, e.args[1], funs), "OP_LOGICAL_NOT")
             [] OTHER ->
                  LET RECURSIVE Args(_, _)
                      Args(c, i) ==
                        IF i > Len(e.args) \/ ~c.ok THEN c
                        ELSE IF f.lazy THEN
                               \* deferred argument: its own bytecode over the shared pool, stored as a constant
                               LET body == CompBody(c.pool, e.args[i], funs)
                                   c1 == [EmitOp(c, "OP_CONST") EXCEPT !.pool = body.pool, !.ok = body.ok] IN
                               Args(EmitConst(c1, KThunk(body.code, f.ps[i])), i + 1)
                             ELSE Args(Comp(c, e.args[i], funs), i + 1)
                      c2 == Args(cs, 1) IN
                  IF ~c2.ok THEN c2
                  ELSE IF f.id \in IntrinsicCBV THEN EmitOp(c2, "OP_" \o f.id)
                  ELSE LET c3 == EmitConst(EmitOp(c2, IF f.lazy THEN "OP_CALL_BY_NEED" ELSE "OP_CALL_BY_VALUE"), KFun(f.id)) IN
                       IF c3.ok THEN EmitU8(c3, Len(e.args)) ELSE c3
    [] OTHER -> Refuse(cs)

\* vm.NewCompile().Compile(expr): [ok, code, pool]
CompileBC(e, funs) == CompBody(<<>>, e, funs)

(***************************************************************************)
(* Decoding.  Operand layout by opcode name.                               *)
(***************************************************************************)
OperandBytes(name) ==
  CASE name \in {"OP_CONST", "OP_LOAD", "OP_NEW_OBJ", "OP_OBJ_LOAD", "OP_IF_TRUE", "OP_JUMP"} -> 2
    [] name \in {"OP_NEW_LIST", "OP_NEW_MAP"} -> 4
    [] name \in {"OP_CALL_BY_VALUE", "OP_CALL_BY_NEED"} -> 3
    [] name = "OP_DYNAMIC_CALL" -> 1
    [] OTHER -> 0
\* instruction at 0-based offset pc: [op, len, a, b] (a, b: operands)
InstrAt(code, pc) ==
  LET name == OpName(code[pc + 1])
      n == OperandBytes(name) IN
  IF name = "?" \/ pc + 1 + n > Len(code) THEN [op |-> "?", len |-> 1, a |-> 0, b |-> 0]
  ELSE [op |-> name, len |-> 1 + n,
        a |-> IF n >= 2 THEN U16(code, pc + 2) ELSE IF n = 1 THEN code[pc + 2] ELSE 0,
        b |-> IF n = 4 THEN U16(code, pc + 4) ELSE IF n = 3 THEN code[pc + 4] ELSE 0]

(***************************************************************************)
(* The machine.  A state is                                                *)
(*   [fr |-> frames (top = last), log, out, steps]                         *)
(* frame: [kind |-> "bc", bid, code, pc, st]   bytecode frame: bid = 0 for *)
(*            the top-level code, else the 0-based pool index of the thunk *)
(*        [kind |-> "host", id, stage, th, acc] a lazy host function that  *)
(*            forces its thunks (th) one at a time -- the Go code runs a   *)
(*            nested dispatch loop per forced thunk (VM.call0)             *)
(* out: [st |-> "run"] while running, else the outcome as in YaeEval.      *)
(***************************************************************************)
BcFrame(bid, code) == [kind |-> "bc", bid |-> bid, code |-> code, pc |-> 0, st |-> <<>>]
VMInit(bc) == [fr |-> <<BcFrame(0, bc.code)>>, log |-> <<>>, out |-> [st |-> "run"], steps |-> 0]
Halted(s) == s.out.st # "run"
Top(s) == s.fr[Len(s.fr)]
SetTop(s, f) == [s EXCEPT !.fr = [@ EXCEPT ![Len(@)] = f]]
Stop(s, out) == [s EXCEPT !.out = out]
Stuck(s, kind) == Stop(s, [st |-> "stuck", kind |-> kind])
FromPure(s, r) == \* outcome of a built-in that did not produce a value
  CASE r.st = "fail" -> Stop(s, [st |-> "fail", why |-> r.why])
    [] r.st = "ood" -> Stop(s, [st |-> "ood"])
    [] OTHER -> Stuck(s, r.kind)

\* deliver a value to the frame below the top one and drop the top frame
Return(s, v) ==
  IF Len(s.fr) = 1 THEN [Stop(s, [st |-> "ok", v |-> v]) EXCEPT !.fr = <<>>]
  ELSE LET below == s.fr[Len(s.fr) - 1]
           fr1 == SubSeq(s.fr, 1, Len(s.fr) - 1) IN
       IF below.kind = "bc" THEN [s EXCEPT !.fr = [fr1 EXCEPT ![Len(fr1)].st = Append(@, v)]]
       ELSE [s EXCEPT !.fr = [fr1 EXCEPT ![Len(fr1)].acc = Append(@, v)]]

\* a lazy host function: which thunk to force next, or the value to return
HostNext(id, acc) ==
  CASE id \in {"U_LIF"} -> IF Len(acc) = 0 THEN [force |-> 1]
                           ELSE IF Len(acc) = 1 THEN [force |-> IF acc[1].v THEN 2 ELSE 3] ELSE [ret |-> acc[2]]
    [] id = "U_AND" -> IF Len(acc) = 0 THEN [force |-> 1]
                       ELSE IF Len(acc) = 1 THEN (IF acc[1].v THEN [force |-> 2] ELSE [ret |-> VBool(FALSE)]) ELSE [ret |-> acc[2]]
    [] id = "U_OR" -> IF Len(acc) = 0 THEN [force |-> 1]
                      ELSE IF Len(acc) = 1 THEN (IF acc[1].v THEN [ret |-> VBool(TRUE)] ELSE [force |-> 2]) ELSE [ret |-> acc[2]]
    [] id = "U_TWICE" -> IF Len(acc) < 2 THEN [force |-> 1] ELSE [ret |-> acc[2]]
    [] id = "U_NEVER" -> [ret |-> VNum(Zero)]
    [] id = "U_SECOND" -> IF Len(acc) = 0 THEN [force |-> 2] ELSE [ret |-> acc[1]]
    [] OTHER -> [bad |-> TRUE]

PopN(st, n) == SubSeq(st, 1, Len(st) - n)
LastN(st, n) == SubSeq(st, Len(st) - n + 1, Len(st))

\* one step of the machine (pool and environment are fixed for a run)
VMStepF(s, pool, venv) ==
  LET f == Top(s) IN
  IF f.kind = "host" THEN
    LET nx == HostNext(f.id, f.acc) IN
    IF "ret" \in DOMAIN nx THEN Return(s, nx.ret)
    ELSE IF "force" \in DOMAIN nx THEN
      LET th == f.th[nx.force] IN [s EXCEPT !.fr = Append(@, BcFrame(th.bid, th.code))]
    ELSE Stuck(s, "no-such-lazy-function")
  ELSE
  IF f.pc >= Len(f.code) THEN Stuck(s, "pc-out-of-code") ELSE
  LET ins == InstrAt(f.code, f.pc)
      op == ins.op
      st == f.st
      n == Len(st)
      s1 == [s EXCEPT !.steps = @ + 1]
      Adv(newst) == SetTop(s1, [f EXCEPT !.pc = f.pc + ins.len, !.st = newst])
      Need(k) == n >= k IN
  CASE op = "?" -> Stuck(s1, "bad-opcode")
    [] op = "OP_NOP" -> Adv(st)
    [] op = "OP_RETURN" -> IF ~Need(1) THEN Stuck(s1, "stack-underflow") ELSE Return(s1, st[n])
    [] op = "OP_CONST" ->
         IF ins.a + 1 > Len(pool) THEN Stuck(s1, "bad-const")
         ELSE LET c == pool[ins.a + 1] IN
              IF c.ck = "val" THEN Adv(Append(st, c.v))
              ELSE IF c.ck = "thunk" THEN Adv(Append(st, [k |-> "thunk", bid |-> ins.a, code |-> c.code]))
              ELSE Stuck(s1, "bad-const-kind")
    [] op = "OP_LOAD" ->
         IF ins.a + 1 > Len(pool) \/ pool[ins.a + 1].ck # "name" THEN Stuck(s1, "bad-const-kind")
         ELSE LET i == VEnvIdx(venv, pool[ins.a + 1].n) IN
              IF i = 0 THEN Stuck(s1, "unbound") ELSE Adv(Append(st, venv[i].v))
    [] op = "OP_ADD_NUM" -> Adv(st)                     \* "nothing to do"
    [] op = "OP_LOGICAL_NOT" -> IF ~Need(1) THEN Stuck(s1, "stack-underflow") ELSE Adv(Append(PopN(st, 1), VBool(~st[n].v)))
    [] op \in {"OP_" \o id : id \in Unary1 \ {"ADD_NUM"}} ->
         IF ~Need(1) THEN Stuck(s1, "stack-underflow")
         ELSE LET r == ApplyBuiltin(IdOfOp(op), <<st[n]>>) IN
              IF r.st = "ok" THEN Adv(Append(PopN(st, 1), r.v)) ELSE FromPure(s1, r)
    [] op \in {"OP_" \o id : id \in Binary2} ->
         IF ~Need(2) THEN Stuck(s1, "stack-underflow")
         ELSE LET r == ApplyBuiltin(IdOfOp(op), <<st[n - 1], st[n]>>) IN
              IF r.st = "ok" THEN Adv(Append(PopN(st, 2), r.v)) ELSE FromPure(s1, r)
    [] op = "OP_JUMP" -> SetTop(s1, [f EXCEPT !.pc = ins.a])
    [] op = "OP_IF_TRUE" ->
         IF ~Need(1) THEN Stuck(s1, "stack-underflow")
         ELSE SetTop(s1, [f EXCEPT !.pc = IF st[n].v THEN f.pc + ins.len ELSE ins.a, !.st = PopN(st, 1)])
    [] op = "OP_NEW_LIST" ->
         IF ~Need(ins.b) THEN Stuck(s1, "stack-underflow") ELSE Adv(Append(PopN(st, ins.b), VList(pool[ins.a + 1].t, LastN(st, ins.b))))
    [] op = "OP_NEW_MAP" ->
         IF ~Need(2 * ins.b) THEN Stuck(s1, "stack-underflow")
         ELSE LET kv == LastN(st, 2 * ins.b) IN
              IF \E i \in 1..ins.b : ~KeyKnown(kv[2 * i - 1]) THEN Stop(s1, [st |-> "ood"])
              ELSE Adv(Append(PopN(st, 2 * ins.b),
                              VMap(pool[ins.a + 1].t, FoldLeft(LAMBDA ents, i : MapPut(ents, kv[2 * i - 1], kv[2 * i]),
                                                               <<>>, [i \in 1..ins.b |-> i]))))
    [] op = "OP_NEW_OBJ" ->
         LET ty == pool[ins.a + 1].t
             k == Len(ty.fs) IN
         IF ~Need(k) THEN Stuck(s1, "stack-underflow") ELSE Adv(Append(PopN(st, k), VObj(ty, LastN(st, k))))
    [] op = "OP_LIST_LOAD" ->
         IF ~Need(2) THEN Stuck(s1, "stack-underflow")
         ELSE LET ix == ListIndex(st[n - 1].els, st[n].v) IN
              IF ix.st = "ood" THEN Stop(s1, [st |-> "ood"])
              ELSE IF ix.st = "ok" THEN Adv(Append(PopN(st, 2), st[n - 1].els[ix.i]))
              ELSE Stop(s1, [st |-> "fail", why |-> "index"])
    [] op = "OP_MAP_LOAD" ->
         IF ~Need(2) THEN Stuck(s1, "stack-underflow")
         ELSE IF ~KeyKnown(st[n]) THEN Stop(s1, [st |-> "ood"])
         ELSE LET j == EntIdx(st[n - 1].ents, st[n].k, KeyText(st[n])) IN
              IF j = 0 THEN Stop(s1, [st |-> "fail", why |-> "key"]) ELSE Adv(Append(PopN(st, 2), st[n - 1].ents[j].val))
    [] op = "OP_OBJ_LOAD" ->
         IF ~Need(1) THEN Stuck(s1, "stack-underflow")
         ELSE LET j == FieldIdx(st[n].ty.fs, pool[ins.a + 1].n) IN
              IF j = 0 THEN Stuck(s1, "no-field") ELSE Adv(Append(PopN(st, 1), st[n].vals[j]))
    [] op = "OP_CALL_BY_VALUE" ->
         IF ~Need(ins.b) THEN Stuck(s1, "stack-underflow")
         ELSE LET id == pool[ins.a + 1].id
                  args == LastN(st, ins.b)
                  s2 == IF id \in DOMAIN UserFns THEN [s1 EXCEPT !.log = LogCall(@, id, args)] ELSE s1
                  r == ApplyBuiltin(id, args) IN
              IF r.st = "ok" THEN SetTop(s2, [f EXCEPT !.pc = f.pc + ins.len, !.st = Append(PopN(st, ins.b), r.v)])
              ELSE FromPure(s2, r)
    [] op = "OP_CALL_BY_NEED" ->
         IF ~Need(ins.b) THEN Stuck(s1, "stack-underflow")
         ELSE LET id == pool[ins.a + 1].id
                  s2 == [s1 EXCEPT !.log = LogCall(@, id, <<>>)]
                  caller == [f EXCEPT !.pc = f.pc + ins.len, !.st = PopN(st, ins.b)] IN
              [SetTop(s2, caller) EXCEPT !.fr = Append(@, [kind |-> "host", id |-> id, th |-> LastN(st, ins.b), acc |-> <<>>])]
    [] op = "OP_DYNAMIC_CALL" ->
         IF ~Need(ins.a + 1) THEN Stuck(s1, "stack-underflow")
         ELSE LET args == LastN(st, ins.a)
                  fv == st[n - ins.a] IN
              IF fv.k # "fun" THEN Stuck(s1, "not-a-function")
              ELSE LET s2 == [s1 EXCEPT !.log = LogCall(@, fv.fid, args)]
                       r == ApplyBuiltin(fv.fid, args) IN
                   IF r.st = "ok" THEN SetTop(s2, [f EXCEPT !.pc = f.pc + ins.len, !.st = Append(PopN(st, ins.a + 1), r.v)])
                   ELSE FromPure(s2, r)
    [] OTHER -> Stuck(s1, "bad-opcode")

\* run to completion, recording one trace entry per executed instruction
RECURSIVE RunVM(_, _, _, _, _)
RunVM(s, pool, venv, trace, fuel) ==
  IF Halted(s) \/ fuel = 0 THEN [s |-> s, trace |-> trace]
  ELSE LET f == Top(s)
           ent == IF f.kind = "bc" /\ f.pc < Len(f.code)
                  THEN <<[b |-> f.bid, pc |-> f.pc, op |-> OpName(f.code[f.pc + 1]), sp |-> Len(f.st)]>> ELSE <<>> IN
       RunVM(VMStepF(s, pool, venv), pool, venv, trace \o ent, fuel - 1)

\* outcome in the shape of YaeEval's results
VMOutcome(bc, venv) ==
  LET r == RunVM(VMInit(bc), bc.pool, venv, <<>>, 100000) IN
  [st |-> r.s.out.st, out |-> r.s.out, log |-> r.s.log, trace |-> r.trace, steps |-> r.s.steps]

(***************************************************************************)
(* C11: structural verification of a bytecode (and of every thunk body in  *)
(* its pool): complete decoding, operands in range and of the right kind,  *)
(* forward jumps to instruction boundaries, one stack depth per offset,    *)
(* never negative, exactly one at the final RETURN.                        *)
(***************************************************************************)
\* boundaries: offsets at which an instruction starts, by linear decoding
RECURSIVE Boundaries(_, _, _)
Boundaries(code, pc, acc) ==
  IF pc >= Len(code) THEN acc
  ELSE LET ins == InstrAt(code, pc) IN Boundaries(code, pc + ins.len, acc \cup {pc})
DecodesCompletely(code) ==
  LET RECURSIVE D(_)
      D(pc) == IF pc = Len(code) THEN TRUE ELSE IF pc > Len(code) THEN FALSE
               ELSE LET ins == InstrAt(code, pc) IN ins.op # "?" /\ D(pc + ins.len)
  IN Len(code) > 0 /\ D(0)
ConstOk(pool, ins) ==
  LET c == IF ins.a + 1 <= Len(pool) THEN pool[ins.a + 1] ELSE [ck |-> "none"] IN
  CASE ins.op = "OP_CONST" -> c.ck \in {"val", "thunk"}
    [] ins.op \in {"OP_LOAD", "OP_OBJ_LOAD"} -> c.ck = "name"
    [] ins.op = "OP_NEW_LIST" -> c.ck = "type" /\ c.t.k = "list"
    [] ins.op = "OP_NEW_MAP" -> c.ck = "type" /\ c.t.k = "map"
    [] ins.op = "OP_NEW_OBJ" -> c.ck = "type" /\ c.t.k = "obj"
    [] ins.op \in {"OP_CALL_BY_VALUE", "OP_CALL_BY_NEED"} -> c.ck = "fun"
    [] OTHER -> TRUE
\* net stack effect of an instruction (pops, pushes)
Pops(pool, ins) ==
  CASE ins.op \in {"OP_CONST", "OP_LOAD", "OP_NOP", "OP_JUMP", "OP_ADD_NUM"} -> 0
    [] ins.op \in {"OP_" \o id : id \in Unary1} \cup {"OP_LOGICAL_NOT", "OP_OBJ_LOAD", "OP_IF_TRUE", "OP_RETURN"} -> 1
    [] ins.op \in {"OP_" \o id : id \in Binary2} \cup {"OP_LIST_LOAD", "OP_MAP_LOAD"} -> 2
    [] ins.op = "OP_NEW_LIST" -> ins.b
    [] ins.op = "OP_NEW_MAP" -> 2 * ins.b
    [] ins.op = "OP_NEW_OBJ" -> Len(pool[ins.a + 1].t.fs)
    [] ins.op \in {"OP_CALL_BY_VALUE", "OP_CALL_BY_NEED"} -> ins.b
    [] ins.op = "OP_DYNAMIC_CALL" -> ins.a + 1
    [] OTHER -> 0
Pushes(ins) == IF ins.op \in {"OP_NOP", "OP_JUMP", "OP_IF_TRUE", "OP_RETURN"} THEN 0
               ELSE IF ins.op = "OP_ADD_NUM" THEN 0 ELSE 1

\* abstract interpretation of stack depth along the code; depth[pc] = -1 unknown.
\* Jumps only go forward, so one left-to-right pass assigns every reachable offset.
VerifyCode(code, pool) ==
  IF ~DecodesCompletely(code) THEN {"decode"}
  ELSE
  LET B == Boundaries(code, 0, {})
      offs == SortBy(SetToSeq(B), LAMBDA a, b : a < b)
      \* state: [d |-> function offset -> depth or -1, bad |-> set of reasons]
      Init0 == [d |-> [o \in B \cup {Len(code)} |-> IF o = 0 THEN 0 ELSE -1], bad |-> {}]
      Merge(stt, target, depth) ==
        IF target \notin DOMAIN stt.d THEN [stt EXCEPT !.bad = @ \cup {"jump-target"}]
        ELSE IF stt.d[target] = -1 THEN [stt EXCEPT !.d[target] = depth]
        ELSE IF stt.d[target] # depth THEN [stt EXCEPT !.bad = @ \cup {"depth-mismatch"}] ELSE stt
      Step(stt, pc) ==
        LET ins == InstrAt(code, pc)
            din == stt.d[pc] IN
        IF din = -1 THEN [stt EXCEPT !.bad = @ \cup {"unreachable-code"}]
        ELSE LET s0 == IF ConstOk(pool, ins) THEN stt ELSE [stt EXCEPT !.bad = @ \cup {"const-kind"}]
                 p == IF ConstOk(pool, ins) THEN Pops(pool, ins) ELSE 0
                 s1 == IF din < p THEN [s0 EXCEPT !.bad = @ \cup {"underflow"}] ELSE s0
                 dout == din - p + Pushes(ins)
                 nextpc == pc + ins.len IN
             CASE ins.op = "OP_JUMP" ->
                    (IF ins.a <= pc THEN [s1 EXCEPT !.bad = @ \cup {"backward-jump"}] ELSE Merge(s1, ins.a, dout))
               [] ins.op = "OP_IF_TRUE" ->
                    (IF ins.a <= pc THEN [s1 EXCEPT !.bad = @ \cup {"backward-jump"}]
                     ELSE Merge(Merge(s1, ins.a, dout), nextpc, dout))
               [] ins.op = "OP_RETURN" ->
                    (IF nextpc # Len(code) THEN [s1 EXCEPT !.bad = @ \cup {"return-not-last"}]
                     ELSE IF din # 1 THEN [s1 EXCEPT !.bad = @ \cup {"return-depth"}] ELSE s1)
               [] OTHER -> Merge(s1, nextpc, dout)
      final == FoldLeft(Step, Init0, offs)
      lastIsReturn == LET lo == offs[Len(offs)] IN InstrAt(code, lo).op = "OP_RETURN"
  IN final.bad \cup (IF lastIsReturn THEN {} ELSE {"no-final-return"})

\* the top-level code and every thunk body of the pool
VerifyBC(code, pool) ==
  VerifyCode(code, pool) \cup UNION {VerifyCode(pool[i].code, pool) : i \in {j \in 1..Len(pool) : pool[j].ck = "thunk"}}
NumInstrs(code) == Cardinality(Boundaries(code, 0, {}))
\* the jump part of the verification alone, linear in the code (for code at the limit of the 16-bit jump operands,
\* where the depth analysis above is beyond what TLC evaluates in reasonable time)
VerifyJumps(code) ==
  IF ~DecodesCompletely(code) THEN {"decode"}
  ELSE LET B == Boundaries(code, 0, {})
           J == {p \in B : InstrAt(code, p).op \in {"OP_JUMP", "OP_IF_TRUE"}} IN
       (IF \E p \in J : InstrAt(code, p).a <= p THEN {"backward-jump"} ELSE {})
       \cup (IF \E p \in J : InstrAt(code, p).a > p /\ InstrAt(code, p).a \notin B \cup {Len(code)} THEN {"jump-target"} ELSE {})
=============================================================================
