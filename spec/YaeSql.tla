---------------------------- MODULE YaeSql ----------------------------
(***************************************************************************)
(* SQL generation from criteria trees (ext/sql.go, ext/criteria.go,        *)
(* ext/sql/*.go) and the reference reader of the generated WHERE text.     *)
(*                                                                         *)
(* criteria:  [k |-> "cond", field, op, args |-> <<operand>>]              *)
(*            [k |-> "group", lop |-> "AND" | "OR" | "NOT", cs |-> <<..>>] *)
(* operand:   [o |-> "num", n] [o |-> "str", s] [o |-> "bool", b]          *)
(*            [o |-> "time", t] [o |-> "name", n] [o |-> "list", els]      *)
(* op:        "=" "<>" "<" "<=" ">" ">=" "LIKE" "IN" "BETWEEN" "ISNULL"    *)
(*                                                                         *)
(* The property is about the TEXT: tokenise it (SqlLex), read it with      *)
(* standard SQL precedence (comparison, then NOT, then AND, then OR;       *)
(* BETWEEN .. AND .. is one condition), flatten nested ANDs / ORs, and     *)
(* compare with the flattened criteria tree after substitution.            *)
(***************************************************************************)
EXTENDS YaeValues

(* ---------------- tokens of the generated text ---------------- *)
\* [t |-> "id", v] `name`   [t |-> "num", v] text   [t |-> "str", v] decoded body   [t |-> "w", v] word / operator / punctuation
Tk(t, v) == [t |-> t, v |-> v]
IsSqlWordCP(c) == (c >= 65 /\ c <= 90) \/ (c >= 97 /\ c <= 122) \/ c = 95
IsNumCP(c) == (c >= 48 /\ c <= 57) \/ c \in {46, 45, 43, 101, 69, 73, 110, 102, 78, 97}      \* digits . - + e E Inf NaN
\* end (exclusive position) of a double-quoted literal starting at `at`, MySQL default reading: backslash escapes
\* the next character; 0 if it is never closed
RECURSIVE DqEnd(_, _)
DqEnd(s, at) == IF at > Len(s) THEN 0 ELSE IF s[at] = 92 THEN DqEnd(s, at + 2) ELSE IF s[at] = 34 THEN at + 1 ELSE DqEnd(s, at + 1)
\* ... and under the doubled-quote reading (a backslash is an ordinary character, "" stands for a quote)
RECURSIVE DqEndAnsi(_, _)
DqEndAnsi(s, at) == IF at > Len(s) THEN 0
                    ELSE IF s[at] = 34 THEN (IF at + 1 <= Len(s) /\ s[at + 1] = 34 THEN DqEndAnsi(s, at + 2) ELSE at + 1)
                    ELSE DqEndAnsi(s, at + 1)
\* MySQL decoding of the escapes strconv.Quote produces for the modelled alphabet
RECURSIVE DqDecode(_)
DqDecode(b) == IF b = <<>> THEN <<>>
               ELSE IF b[1] = 92 /\ Len(b) >= 2 THEN
                 <<CASE b[2] = 110 -> 10 [] b[2] = 116 -> 9 [] b[2] = 114 -> 13 [] OTHER -> b[2]>> \o DqDecode(Sub(b, 3, Len(b)))
               ELSE <<b[1]>> \o DqDecode(Tail(b))
RECURSIVE SqlLexFrom(_, _, _)
SqlLexFrom(s, at, acc) ==
  IF at > Len(s) THEN [ok |-> TRUE, toks |-> acc]
  ELSE LET c == s[at] IN
  IF c = 32 THEN SqlLexFrom(s, at + 1, acc)
  ELSE IF c = 96 THEN      \* `identifier`
    (LET e == IF \E j \in (at + 1)..Len(s) : s[j] = 96 THEN CHOOSE j \in (at + 1)..Len(s) : s[j] = 96 /\ \A i \in (at + 1)..(j - 1) : s[i] # 96 ELSE 0 IN
     IF e = 0 THEN [ok |-> FALSE, toks |-> acc] ELSE SqlLexFrom(s, e + 1, Append(acc, Tk("id", Sub(s, at + 1, e - 1)))))
  ELSE IF c = 34 THEN
    (LET e == DqEnd(s, at + 1) IN
     IF e = 0 THEN [ok |-> FALSE, toks |-> acc]
     ELSE SqlLexFrom(s, e, Append(acc, [t |-> "str", v |-> DqDecode(Sub(s, at + 1, e - 2)), raw |-> Sub(s, at, e - 1)])))
  ELSE IF c \in {40, 41, 44} THEN SqlLexFrom(s, at + 1, Append(acc, Tk("w", <<c>>)))
  ELSE IF c \in {60, 62, 61} THEN
    (IF at + 1 <= Len(s) /\ s[at + 1] \in {61, 62} /\ <<c, s[at + 1]>> \in {<<60, 61>>, <<62, 61>>, <<60, 62>>}
     THEN SqlLexFrom(s, at + 2, Append(acc, Tk("w", <<c, s[at + 1]>>)))
     ELSE SqlLexFrom(s, at + 1, Append(acc, Tk("w", <<c>>))))
  ELSE IF IsSqlWordCP(c) THEN
    (LET e == IF \E j \in at..Len(s) : ~(IsSqlWordCP(s[j]) \/ IsDigit(s[j])) THEN CHOOSE j \in at..Len(s) : ~(IsSqlWordCP(s[j]) \/ IsDigit(s[j])) /\ \A i \in at..(j - 1) : IsSqlWordCP(s[i]) \/ IsDigit(s[i]) ELSE Len(s) + 1 IN
     SqlLexFrom(s, e, Append(acc, Tk("w", Sub(s, at, e - 1)))))
  ELSE IF IsDigit(c) \/ c \in {45, 43} THEN
    (LET e == IF \E j \in at..Len(s) : ~IsNumCP(s[j]) THEN CHOOSE j \in at..Len(s) : ~IsNumCP(s[j]) /\ \A i \in at..(j - 1) : IsNumCP(s[i]) ELSE Len(s) + 1 IN
     SqlLexFrom(s, e, Append(acc, Tk("num", Sub(s, at, e - 1)))))
  ELSE [ok |-> FALSE, toks |-> acc]
SqlLex(s) == SqlLexFrom(s, 1, <<>>)

(* ---------------- reference reader: standard SQL precedence ---------------- *)
\* trees: [k |-> "c", toks] a condition (its tokens) ; [k |-> "and"|"or", l, r] ; [k |-> "not", e]
W(toks, i, w) == i <= Len(toks) /\ toks[i].t = "w" /\ toks[i].v = w
W_AND == <<65, 78, 68>>  W_OR == <<79, 82>>  W_NOT == <<78, 79, 84>>  W_BETWEEN == <<66, 69, 84, 87, 69, 69, 78>>
RECURSIVE ROr(_, _), RAnd(_, _), RNot(_, _), RPrim(_, _), ROrTail(_, _, _), RAndTail(_, _, _), RCondEnd(_, _, _, _)
ROk(n, i) == [ok |-> TRUE, n |-> n, i |-> i]
RNo == [ok |-> FALSE]
ROr(toks, i) == LET a == RAnd(toks, i) IN IF ~a.ok THEN a ELSE ROrTail(toks, a.n, a.i)
ROrTail(toks, left, i) ==
  IF W(toks, i, W_OR) THEN (LET b == RAnd(toks, i + 1) IN IF ~b.ok THEN b ELSE ROrTail(toks, [k |-> "or", l |-> left, r |-> b.n], b.i))
  ELSE ROk(left, i)
RAnd(toks, i) == LET a == RNot(toks, i) IN IF ~a.ok THEN a ELSE RAndTail(toks, a.n, a.i)
RAndTail(toks, left, i) ==
  IF W(toks, i, W_AND) THEN (LET b == RNot(toks, i + 1) IN IF ~b.ok THEN b ELSE RAndTail(toks, [k |-> "and", l |-> left, r |-> b.n], b.i))
  ELSE ROk(left, i)
RNot(toks, i) == IF W(toks, i, W_NOT) THEN (LET e == RNot(toks, i + 1) IN IF ~e.ok THEN e ELSE ROk([k |-> "not", e |-> e.n], e.i))
                 ELSE RPrim(toks, i)
\* a condition extends to the next AND / OR / unmatched ")" at nesting depth 0; the AND of BETWEEN belongs to it
RCondEnd(toks, i, depth, between) ==
  IF i > Len(toks) THEN i
  ELSE IF W(toks, i, <<40>>) THEN RCondEnd(toks, i + 1, depth + 1, between)
  ELSE IF W(toks, i, <<41>>) THEN (IF depth = 0 THEN i ELSE RCondEnd(toks, i + 1, depth - 1, between))
  ELSE IF depth = 0 /\ W(toks, i, W_BETWEEN) THEN RCondEnd(toks, i + 1, depth, TRUE)
  ELSE IF depth = 0 /\ W(toks, i, W_AND) THEN (IF between THEN RCondEnd(toks, i + 1, depth, FALSE) ELSE i)
  ELSE IF depth = 0 /\ W(toks, i, W_OR) THEN i
  ELSE RCondEnd(toks, i + 1, depth, between)
\* "(" boolean-expression ")"  or a condition.  A parenthesis opens a boolean group only at the START of a primary
\* (the parenthesis of an IN list follows the word IN inside a condition)
RPrim(toks, i) ==
  IF i > Len(toks) THEN RNo
  ELSE IF W(toks, i, <<40>>) THEN
    (LET e == ROr(toks, i + 1) IN IF ~e.ok THEN e ELSE IF W(toks, e.i, <<41>>) THEN ROk(e.n, e.i + 1) ELSE RNo)
  ELSE LET e == RCondEnd(toks, i, 0, FALSE) IN IF e = i THEN RNo ELSE ROk([k |-> "c", toks |-> Sub(toks, i, e - 1)], e)
ReadSql(toks) == LET r == ROr(toks, 1) IN IF r.ok /\ r.i = Len(toks) + 1 THEN [ok |-> TRUE, n |-> r.n] ELSE [ok |-> FALSE]

\* flattening: AND and OR are associative -- a tree becomes [k, items] with nested same-connective groups merged
RECURSIVE Flatten(_)
Items(n, k) == LET f == Flatten(n) IN IF f.k = k THEN f.items ELSE <<f>>
Flatten(n) ==
  CASE n.k \in {"and", "or"} -> [k |-> n.k, items |-> Items(n.l, n.k) \o Items(n.r, n.k)]
    [] n.k = "not" -> [k |-> "not", items |-> <<Flatten(n.e)>>]
    [] OTHER -> n

(* ---------------- the generator's meaning, as tokens ---------------- *)
ValToks(v) ==
  CASE v.k = "num" -> <<Tk("num", NumText(v.v))>>
    [] v.k = "str" -> <<[t |-> "str", v |-> v.v, raw |-> Quote(v.v)]>>
    [] v.k = "bool" -> <<Tk("num", IF v.v THEN <<49>> ELSE <<48>>)>>
    [] v.k = "time" -> <<Tk("w", N_from_unixtime), Tk("w", <<40>>), Tk("num", IntDigits(v.v)), Tk("w", <<41>>)>>
    [] OTHER -> <<>>
\* sql.fmtVal
OperandToks(o, venv) ==
  CASE o.o = "num" -> <<Tk("num", NumText(o.n))>>
    [] o.o = "str" -> <<[t |-> "str", v |-> o.s, raw |-> Quote(o.s)]>>
    [] o.o = "bool" -> <<Tk("num", IF o.b THEN <<49>> ELSE <<48>>)>>
    [] o.o = "time" -> <<Tk("w", N_from_unixtime), Tk("w", <<40>>), Tk("num", IntDigits(o.t)), Tk("w", <<41>>)>>
    [] o.o = "name" -> (LET i == IF \E j \in 1..Len(venv) : venv[j].n = o.n THEN CHOOSE j \in 1..Len(venv) : venv[j].n = o.n ELSE 0 IN
                        IF i = 0 THEN <<Tk("id", o.n)>> ELSE ValToks(venv[i].v))
    [] OTHER -> <<>>
OperandToksL(o, venv) ==
  IF o.o = "list" THEN <<Tk("w", <<40>>)>> \o
       Concat([i \in 1..Len(o.els) |-> (IF i > 1 THEN <<Tk("w", <<44>>)>> ELSE <<>>) \o OperandToks(o.els[i], venv)]) \o <<Tk("w", <<41>>)>>
  ELSE OperandToks(o, venv)
OpWord(op) == CASE op = "=" -> <<61>> [] op = "<>" -> <<60, 62>> [] op = "<" -> <<60>> [] op = "<=" -> <<60, 61>>
                [] op = ">" -> <<62>> [] op = ">=" -> <<62, 61>> [] op = "LIKE" -> N_LIKE [] op = "IN" -> N_IN [] OTHER -> <<63>>
\* the tokens of one condition, field first (the field is a name like any other operand)
CondToks(c, venv) ==
  LET f == OperandToks([o |-> "name", n |-> c.field], venv) IN
  CASE c.op = "BETWEEN" -> f \o <<Tk("w", N_BETWEEN)>> \o OperandToksL(c.args[1], venv) \o <<Tk("w", W_AND)>> \o OperandToksL(c.args[2], venv)
    [] c.op = "ISNULL" -> f \o <<Tk("w", <<73, 83>>), Tk("w", <<78, 85, 76, 76>>)>>
    [] OTHER -> f \o <<Tk("w", OpWord(c.op))>> \o OperandToksL(c.args[1], venv)
\* the criteria tree as the flattened boolean structure over conditions-as-tokens
RECURSIVE CritTree(_, _)
CritTree(c, venv) ==
  CASE c.k = "cond" -> [k |-> "c", toks |-> CondToks(c, venv)]
    [] c.lop = "NOT" -> [k |-> "not", e |-> CritTree(c.cs[1], venv)]
    [] c.lop = "AND" -> [k |-> "and", l |-> CritTree(c.cs[1], venv), r |-> CritTree(c.cs[2], venv)]
    [] OTHER -> [k |-> "or", l |-> CritTree(c.cs[1], venv), r |-> CritTree(c.cs[2], venv)]

\* ext/sql/compile.go: parentheses around a logical group iff the enclosing logical operator binds tighter
Prec(lop) == CASE lop = "AND" -> 4 [] lop = "OR" -> 3 [] OTHER -> 10
RECURSIVE ToSqlToks(_, _, _)
ToSqlToks(c, venv, outer) ==
  IF c.k = "cond" THEN CondToks(c, venv)
  ELSE LET p == Prec(c.lop)
           body == IF c.lop = "NOT" THEN <<Tk("w", W_NOT)>> \o ToSqlToks(c.cs[1], venv, p)
                   ELSE ToSqlToks(c.cs[1], venv, p) \o <<Tk("w", IF c.lop = "AND" THEN W_AND ELSE W_OR)>> \o ToSqlToks(c.cs[2], venv, p) IN
       IF outer > p THEN <<Tk("w", <<40>>)>> \o body \o <<Tk("w", <<41>>)>> ELSE body
\* tokens without the raw spelling (structure only)
Plain(toks) == [i \in 1..Len(toks) |-> [t |-> toks[i].t, v |-> toks[i].v]]
RECURSIVE PlainTree(_)
PlainTree(f) == IF f.k = "c" THEN [k |-> "c", toks |-> Plain(f.toks)]
                ELSE [k |-> f.k, items |-> [i \in 1..Len(f.items) |-> PlainTree(f.items[i])]]
=============================================================================
