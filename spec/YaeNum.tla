---------------------------- MODULE YaeNum ----------------------------
(***************************************************************************)
(* The number domain of the specification.  TLC has 32-bit integers and no *)
(* floats, so a yae `num` (an IEEE double in the code) is one of           *)
(*   [k |-> "fin", n, s, e]   =  n / 2^s  +  e * 2^-32   (exact; normal    *)
(*                               form: s = 0 or n odd; |n| < 2^30, s <= 20)*)
(*   [k |-> "big", neg, d, r] =  an exactly representable integer of       *)
(*                               magnitude >= 2^31 given by its decimal    *)
(*                               digits d; r = its canonical rendering     *)
(*   [k |-> "inf", neg], [k |-> "nan"]                                     *)
(*   [k |-> "nzero"]          =  negative zero (-0.0): equal to zero under *)
(*                               every comparison, rendered "0", but       *)
(*                               1 / -0 = -Inf; produced by - 0, x * 0 and *)
(*                               0 / x of negative sign, ceil / round of   *)
(*                               values in (-1, 0) / (-0.5, 0), min(-0, 0) *)
(*   [k |-> "tau", t]         =  t * (the double nearest 1e-9), t in       *)
(*                               {-4,-2,-1,1,2,4}: the comparison          *)
(*                               tolerance itself and its exact multiples  *)
(* On this domain + - * / % abs ceil floor round min max, comparisons and  *)
(* shortest decimal rendering are exact in IEEE doubles, so specification  *)
(* and code must agree exactly.  An operation whose exact result leaves    *)
(* the domain yields OOD ("out of domain"): the case is not judged.        *)
(***************************************************************************)
EXTENDS YaeBase

OOD == [k |-> "ood"]
IsOOD(x) == x.k = "ood"
Lim == 1073741824          \* 2^30
MaxS == 20

RECURSIVE NormNS(_, _)
NormNS(n, s) == IF s > 0 /\ n % 2 = 0 THEN NormNS(n \div 2, s - 1) ELSE [n |-> n, s |-> s]
\* normal form: e in (-2048, 2048] (excess carried into n at scale 2^-20), then n odd or s = 0
Fin(n0, s0, e0) ==
  LET q == (e0 + 2047) \div 4096
      e == e0 - 4096 * q
      big == q # 0 /\ (s0 > 20 \/ AbsI(n0) >= Lim \div Pow(2, 20 - MinI(s0, 20)))
      n1 == IF q = 0 \/ big THEN n0 ELSE n0 * Pow(2, 20 - s0) + q
      s1 == IF q = 0 \/ big THEN s0 ELSE 20
      ns == NormNS(n1, s1) IN
  IF big \/ AbsI(ns.n) >= Lim \/ ns.s > MaxS THEN OOD
  ELSE IF e # 0 /\ AbsI(ns.n) \div Pow(2, ns.s) >= 1048576 THEN OOD     \* keeps n/2^s + e/2^32 within 53 bits
  ELSE [k |-> "fin", n |-> ns.n, s |-> ns.s, e |-> e]
\* an integer as a number: exact "big" form from 2^30 on (TLC integers reach 2^31 - 1)
NInt(n) == IF AbsI(n) < Lim THEN [k |-> "fin", n |-> n, s |-> 0, e |-> 0]
           ELSE [k |-> "big", neg |-> n < 0, d |-> [i \in 1..Len(NatDigits(AbsI(n))) |-> NatDigits(AbsI(n))[i] - 48],
                 r |-> IntDigits(n)]
Zero == NInt(0)
NZero == [k |-> "nzero"]
IsZ(x) == x = Zero \/ x.k = "nzero"
Pos0(x) == IF x.k = "nzero" THEN Zero ELSE x        \* where the sign of zero cannot matter
One == NInt(1)
Inf(neg) == [k |-> "inf", neg |-> neg]
NaN == [k |-> "nan"]
Tau(t) == IF t = 0 THEN [k |-> "fin", n |-> 0, s |-> 0, e |-> 0]
          ELSE IF t \in {-4, -2, -1, 1, 2, 4} THEN [k |-> "tau", t |-> t] ELSE OOD
IsFin(x) == x.k = "fin"
IsFin0(x) == x.k = "fin" /\ x.e = 0
\* the IEEE sign bit: set for negative numbers and for negative zero

\* sign of a number: -1, 0, 1 (nan: 0)
Sign(x) ==
  CASE x.k = "fin" -> IF x.n > 0 THEN 1 ELSE IF x.n < 0 THEN -1 ELSE IF x.e > 0 THEN 1 ELSE IF x.e < 0 THEN -1 ELSE 0
    [] x.k = "big" -> IF x.neg THEN -1 ELSE 1
    [] x.k = "inf" -> IF x.neg THEN -1 ELSE 1
    [] x.k = "tau" -> IF x.t < 0 THEN -1 ELSE 1
    [] OTHER -> 0

NumNeg(x) ==
  CASE x = Zero -> NZero
    [] x.k = "nzero" -> Zero
    [] x.k = "fin" -> [x EXCEPT !.n = -x.n, !.e = -x.e]
    [] x.k = "big" -> [x EXCEPT !.neg = ~x.neg, !.r = IF x.neg THEN Tail(x.r) ELSE <<45>> \o x.r]
    [] x.k = "inf" -> [x EXCEPT !.neg = ~x.neg]
    [] x.k = "tau" -> [x EXCEPT !.t = -x.t]
    [] OTHER -> x
NumAbs(x) == IF x.k = "nzero" THEN Zero ELSE IF Sign(x) < 0 THEN NumNeg(x) ELSE x
SignBit(x) == x.k = "nzero" \/ Sign(x) < 0
SZero(neg) == IF neg THEN NZero ELSE Zero

\* fin + fin (exact)
NumAdd(x, y) ==
  IF y.k = "nzero" THEN (IF x.k = "ood" THEN OOD ELSE x)          \* x + -0 = x ; -0 + -0 = -0
  ELSE IF x.k = "nzero" THEN y                                    \* -0 + y = y ; -0 + 0 = 0
  ELSE IF x.k = "fin" /\ y.k = "fin" THEN
    LET S == MaxI(x.s, y.s) IN
    IF S - x.s > 30 \/ S - y.s > 30 THEN OOD ELSE
    LET a == x.n * Pow(2, S - x.s)
        b == y.n * Pow(2, S - y.s) IN
    IF AbsI(x.n) >= Lim \div Pow(2, S - x.s) \/ AbsI(y.n) >= Lim \div Pow(2, S - y.s) THEN OOD
    ELSE Fin(a + b, S, x.e + y.e)
  ELSE IF x.k = "nan" \/ y.k = "nan" THEN NaN
  ELSE IF x.k = "inf" /\ y.k = "inf" THEN (IF x.neg = y.neg THEN x ELSE NaN)
  ELSE IF x.k = "inf" THEN x
  ELSE IF y.k = "inf" THEN y
  ELSE IF x.k = "tau" /\ y.k = "tau" THEN Tau(x.t + y.t)       \* exact: power-of-two multiples
  ELSE IF x.k = "tau" /\ y = Zero THEN x
  ELSE IF y.k = "tau" /\ x = Zero THEN y
  ELSE OOD
NumSub(x, y) == IF y.k = "ood" THEN OOD ELSE NumAdd(x, NumNeg(y))

NumMul(x, y) ==
  IF x.k \in {"fin", "nzero"} /\ y.k \in {"fin", "nzero"} /\ (IsZ(x) \/ IsZ(y)) THEN SZero(SignBit(x) # SignBit(y))
  ELSE IF x.k = "fin" /\ y.k = "fin" THEN
    IF x.e # 0 \/ y.e # 0 THEN OOD
    ELSE IF AbsI(x.n) >= 32768 \/ AbsI(y.n) >= 32768 THEN OOD
    ELSE Fin(x.n * y.n, x.s + y.s, 0)
  ELSE IF x.k = "nan" \/ y.k = "nan" THEN NaN
  ELSE IF x.k = "inf" \/ y.k = "inf" THEN
       (IF Sign(x) = 0 \/ Sign(y) = 0 THEN (IF x.k = "ood" \/ y.k = "ood" THEN OOD ELSE NaN) ELSE Inf(Sign(x) * Sign(y) < 0))
  ELSE OOD

RECURSIVE OddPart(_)
OddPart(n) == IF n # 0 /\ n % 2 = 0 THEN OddPart(n \div 2) ELSE n
RECURSIVE TwoExp(_)
TwoExp(n) == IF n # 0 /\ n % 2 = 0 THEN 1 + TwoExp(n \div 2) ELSE 0
\* x / y: exact iff the odd part of y's numerator divides x's numerator
NumDiv(x, y) ==
  IF x.k \in {"fin", "nzero"} /\ IsZ(y) THEN (IF IsZ(x) THEN NaN ELSE Inf(SignBit(x) # SignBit(y)))
  ELSE IF IsZ(x) /\ y.k \in {"fin", "inf"} THEN SZero(SignBit(x) # SignBit(y))       \* 0 / y, y # 0
  ELSE IF x.k = "fin" /\ y.k = "inf" THEN SZero(SignBit(x) # SignBit(y))              \* x / inf
  ELSE IF x.k = "nzero" \/ y.k = "nzero" THEN
       (IF x.k = "nan" \/ y.k = "nan" THEN NaN ELSE IF x.k = "inf" THEN Inf(~x.neg) ELSE OOD)
  ELSE IF x.k = "fin" /\ y.k = "fin" THEN
    IF x.e # 0 \/ y.e # 0 THEN OOD
    ELSE LET od == OddPart(y.n)           \* y = od * 2^(te - y.s)
             te == TwoExp(y.n) IN
         IF x.n % AbsI(od) # 0 THEN OOD
         ELSE \* (x.n/od) / 2^(x.s) / 2^(te - y.s) = (x.n/od) * 2^(y.s) / 2^(x.s + te)
              IF y.s > 20 THEN OOD
              ELSE IF AbsI(x.n \div od) >= Lim \div Pow(2, y.s) THEN OOD
              ELSE Fin((x.n \div od) * Pow(2, y.s), x.s + te, 0)
  ELSE IF x.k = "nan" \/ y.k = "nan" THEN NaN
  ELSE IF x.k = "inf" /\ y.k = "inf" THEN NaN
  ELSE IF x.k = "inf" /\ y.k = "fin" THEN (IF y = Zero THEN x ELSE Inf(x.neg # (Sign(y) < 0)))
  ELSE OOD

\* truncation toward zero as an Int (only for e = 0)
TruncI(x) == IF x.n >= 0 THEN x.n \div Pow(2, x.s) ELSE -((-x.n) \div Pow(2, x.s))
\* (a result of zero keeps the sign of the operand: ceil(-0.5) = round(-0.25) = -0)
KeepSign(x, r) == IF r = Zero /\ SignBit(x) THEN NZero ELSE r
NumTrunc(x) == IF IsFin0(x) THEN KeepSign(x, NInt(TruncI(x))) ELSE IF x.k \in {"big", "inf", "nan", "nzero"} THEN x ELSE OOD
NumFloor(x) == IF IsFin0(x) THEN NInt(x.n \div Pow(2, x.s)) ELSE IF x.k \in {"big", "inf", "nan", "nzero"} THEN x ELSE OOD
NumCeil(x) == IF IsFin0(x) THEN KeepSign(x, NInt(-((-x.n) \div Pow(2, x.s)))) ELSE IF x.k \in {"big", "inf", "nan", "nzero"} THEN x ELSE OOD
\* math.Round: half away from zero
NumRound(x) ==
  IF IsFin0(x) THEN
    (IF x.s = 0 THEN x
     ELSE LET a == AbsI(x.n)
              q == (2 * a + Pow(2, x.s)) \div Pow(2, x.s + 1) IN
          KeepSign(x, NInt(IF x.n < 0 THEN -q ELSE q)))
  ELSE IF x.k \in {"big", "inf", "nan", "nzero"} THEN x ELSE OOD

\* exact comparison: -1, 0, 1;  2 = unordered (nan); 3 = not decidable here
BigCmpAbs(a, b) == IF Len(a) # Len(b) THEN (IF Len(a) < Len(b) THEN -1 ELSE 1)
                   ELSE IF a = b THEN 0 ELSE IF SeqLT(a, b) THEN -1 ELSE 1
\* tau (= t * 1e-9, same sign as y here) against a fin value: 4*2^-32 < 1e-9 < 5*2^-32
TauCmpFin(x, y) ==
  IF y.n # 0 THEN (IF y.s <= 10 THEN (IF x.t > 0 THEN -1 ELSE 1) ELSE 3)       \* |y| >= 2^-10 > 4e-9
  ELSE LET at == AbsI(x.t) ae == AbsI(y.e) IN            \* at * tau  vs  ae * 2^-32
       IF ae >= 5 * at THEN (IF x.t > 0 THEN -1 ELSE 1)
       ELSE IF ae <= 4 * at THEN (IF x.t > 0 THEN 1 ELSE -1)
       ELSE 3
NumCmp(x0, y0) ==
  LET x == Pos0(x0) y == Pos0(y0) IN
  IF x.k = "ood" \/ y.k = "ood" THEN 3
  ELSE IF x.k = "nan" \/ y.k = "nan" THEN 2
  ELSE IF x.k = "fin" /\ y.k = "fin" THEN
    LET d == NumSub(x, y) IN IF IsOOD(d) THEN 3 ELSE Sign(d)
  ELSE IF Sign(x) # Sign(y) THEN (IF Sign(x) < Sign(y) THEN -1 ELSE 1)
  ELSE IF x.k = "tau" /\ y.k = "tau" THEN (IF x.t < y.t THEN -1 ELSE IF x.t > y.t THEN 1 ELSE 0)
  ELSE IF x.k = "tau" /\ y.k = "fin" THEN TauCmpFin(x, y)
  ELSE IF x.k = "fin" /\ y.k = "tau" THEN (LET c == TauCmpFin(y, x) IN IF c > 1 THEN c ELSE -c)
  ELSE IF x.k = "tau" THEN -Sign(x)            \* same sign, y is big / inf: x is nearer to zero
  ELSE IF y.k = "tau" THEN Sign(y)
  ELSE IF x.k = "inf" /\ y.k = "inf" THEN 0
  ELSE IF x.k = "inf" THEN Sign(x)
  ELSE IF y.k = "inf" THEN -Sign(x)
  ELSE IF x.k = "big" /\ y.k = "big" THEN Sign(x) * BigCmpAbs(x.d, y.d)
  ELSE IF x.k = "big" THEN Sign(x)          \* |big| >= 2^31 > |fin|
  ELSE -Sign(y)

\* |x - y| < 1e-9 : for fin values this is |n-diff| = 0 and |e-diff| <= 4
\* (1e-9 lies strictly between 4 * 2^-32 and 5 * 2^-32); "und" when not decidable
Near(x0, y0) ==
  LET x == Pos0(x0) y == Pos0(y0) IN
  IF x.k = "fin" /\ y.k = "fin" THEN
    LET d == NumSub(x, y) IN
    IF IsOOD(d) THEN "und"
    ELSE IF d.n = 0 THEN (IF AbsI(d.e) <= 4 THEN "yes" ELSE "no")
    ELSE IF d.s <= 10 /\ AbsI(d.e) < 4096 THEN "no"      \* |n/2^s| >= 2^-10 >> (4096+5)*2^-32
    ELSE "und"
  ELSE IF x.k = "tau" /\ y.k = "tau" THEN (IF x.t = y.t THEN "yes" ELSE "no")    \* |t1 - t2| * tau >= tau: not below the tolerance
  ELSE IF x.k = "tau" /\ y = Zero THEN "no"                                     \* |t| * tau >= tau
  ELSE IF y.k = "tau" /\ x = Zero THEN "no"
  ELSE IF (x.k = "tau" /\ y.k = "fin" /\ y.n # 0 /\ y.s <= 10) \/ (y.k = "tau" /\ x.k = "fin" /\ x.n # 0 /\ x.s <= 10) THEN "no"
  ELSE IF x.k = "tau" \/ y.k = "tau" THEN (IF x.k \in {"big"} \/ y.k \in {"big"} THEN "no" ELSE "und")
  ELSE IF x.k = "big" /\ y.k = "big" THEN (IF x = y THEN "yes" ELSE "no")   \* distinct doubles >= 2^31 differ by >= 2^-21
  ELSE IF x.k \in {"nan", "inf"} \/ y.k \in {"nan", "inf"} THEN "und"    \* property text does not settle these
  ELSE IF x.k = "ood" \/ y.k = "ood" THEN "und"
  ELSE "no"

\* val.NumEQ .. NumGE ; result "T" / "F" / "U" (undetermined)
B3(b) == IF b THEN "T" ELSE "F"
NumEQ(x, y) == LET nr == Near(x, y) IN IF nr = "und" THEN "U" ELSE B3(nr = "yes")
NumNE(x, y) == LET nr == Near(x, y) IN IF nr = "und" THEN "U" ELSE B3(nr = "no")
NumLT(x, y) == LET nr == Near(x, y) c == NumCmp(x, y) IN IF nr = "und" \/ c > 1 THEN "U" ELSE B3(c < 0 /\ nr = "no")
NumLE(x, y) == LET nr == Near(x, y) c == NumCmp(x, y) IN IF nr = "und" \/ c > 1 THEN "U" ELSE B3(c <= 0 \/ nr = "yes")
NumGT(x, y) == LET nr == Near(x, y) c == NumCmp(x, y) IN IF nr = "und" \/ c > 1 THEN "U" ELSE B3(c > 0 /\ nr = "no")
NumGE(x, y) == LET nr == Near(x, y) c == NumCmp(x, y) IN IF nr = "und" \/ c > 1 THEN "U" ELSE B3(c >= 0 \/ nr = "yes")

\* math.Max / math.Min: an infinity of the right sign wins even over NaN, otherwise NaN is contagious;
\* of the two zeros Max prefers +0 and Min -0
IsInfS(x, neg) == x.k = "inf" /\ x.neg = neg
NumMax(x, y) == IF x.k = "ood" \/ y.k = "ood" THEN OOD
                ELSE IF IsInfS(x, FALSE) \/ IsInfS(y, FALSE) THEN Inf(FALSE)
                ELSE IF x.k = "nan" \/ y.k = "nan" THEN NaN
                ELSE IF IsZ(x) /\ IsZ(y) THEN (IF x = Zero \/ y = Zero THEN Zero ELSE NZero)
                ELSE LET c == NumCmp(x, y) IN IF c > 1 THEN OOD ELSE IF c >= 0 THEN x ELSE y
NumMin(x, y) == IF x.k = "ood" \/ y.k = "ood" THEN OOD
                ELSE IF IsInfS(x, TRUE) \/ IsInfS(y, TRUE) THEN Inf(TRUE)
                ELSE IF x.k = "nan" \/ y.k = "nan" THEN NaN
                ELSE IF IsZ(x) /\ IsZ(y) THEN (IF x.k = "nzero" \/ y.k = "nzero" THEN NZero ELSE Zero)
                ELSE LET c == NumCmp(x, y) IN IF c > 1 THEN OOD ELSE IF c <= 0 THEN x ELSE y

\* float64(int64(x) % int64(y)) : truncating remainder; "mod0" when the truncated divisor is 0
NumMod(x0, y0) ==
  LET x == Pos0(x0) y == Pos0(y0) IN
  IF IsFin0(x) /\ IsFin0(y) THEN
    LET a == TruncI(x)
        b == TruncI(y) IN
    IF b = 0 THEN [k |-> "mod0"]
    ELSE LET r == AbsI(a) % AbsI(b) IN NInt(IF a < 0 THEN -r ELSE r)
  ELSE OOD

\* x ^ y for small non-negative integer exponents (exact in math.Pow)
RECURSIVE PowN(_, _)
PowN(x, k) == IF k = 0 THEN One ELSE LET p == PowN(x, k - 1) IN IF IsOOD(p) THEN OOD ELSE NumMul(p, x)
NumPow(x, y) ==
  IF IsFin0(x) /\ IsFin0(y) /\ y.s = 0 /\ y.n >= 0 /\ y.n <= 6 /\ AbsI(x.n) < 1024 THEN PowN(x, y.n)
  ELSE OOD

IsIntNum(x) ==      \* v == math.Trunc(v)
  CASE x.k = "fin" -> x.s = 0 /\ x.e = 0
    [] x.k = "big" -> TRUE
    [] x.k = "inf" -> TRUE
    [] x.k = "nzero" -> TRUE
    [] OTHER -> FALSE

\* Canonical text of a number (val.String / Key / string()): integers in plain
\* decimal digits, other values as the shortest decimal that round-trips.
\* "und" when the specification cannot compute the shortest form (e # 0).
NumText(x) ==
  CASE x.k = "fin" ->
         IF x.e # 0 THEN (IF \E i \in 1..Len(NearTexts) : NearTexts[i].n = x.n /\ NearTexts[i].s = x.s /\ NearTexts[i].e = x.e
                          THEN NearTexts[CHOOSE i \in 1..Len(NearTexts) : NearTexts[i].n = x.n /\ NearTexts[i].s = x.s /\ NearTexts[i].e = x.e].t
                          ELSE <<>>)
         ELSE IF x.s = 0 THEN IntDigits(x.n)
         ELSE IF x.s > 6 THEN <<>>
         ELSE LET a == AbsI(x.n)
                  p == Pow(2, x.s)
                  ip == a \div p
                  f == a % p
                  frac == PadLeft(NatDigits(f * Pow(5, x.s)), x.s, 48) IN
              (IF x.n < 0 THEN <<45>> ELSE <<>>) \o NatDigits(ip) \o <<46>> \o StripTrailing(frac, 48)
    [] x.k = "big" -> x.r
    [] x.k = "inf" -> IF x.neg THEN N_nInf ELSE N_pInf
    [] x.k = "nan" -> N_NaN
    [] x.k = "nzero" -> <<48>>           \* IsInt, int64(-0.0) = 0
    [] x.k = "tau" -> (IF x.t < 0 THEN <<45>> ELSE <<>>) \o <<48, 46, 48, 48, 48, 48, 48, 48, 48, 48, 48 + AbsI(x.t)>>
    [] OTHER -> <<>>
NumTextKnown(x) == NumText(x) # <<>>

\* float64 -> int (Go `int(f)`), only where Go defines it: finite and in range
NumToIndex(x0) == LET x == Pos0(x0) IN IF IsFin0(x) THEN [ok |-> TRUE, i |-> TruncI(x)] ELSE [ok |-> FALSE]
=============================================================================
