package main

// family "conc" (C14): G goroutines use yae at once, released together from a
// barrier with seeded start offsets; every goroutine's outcomes are recorded
// next to the outcome the same work has when run alone (before the window).
// The binary is built with -race and every case runs in its OWN worker process:
// the parent attaches the race detector's reports (stderr) to the observation.
//
//   kind "engines"  every goroutine builds its own engine, compiles its program, invokes it
//   kind "warm"     one engine that has finished a first compilation; every goroutine compiles
//                   its program on it and invokes it
//   kind "invoke"   one compiled expression, invoked by every goroutine with its own environment
//   kind "mixed"    one warmed engine: even goroutines compile and invoke, odd ones invoke a
//                   callable compiled before the window
//
// The window is run twice: first with no hook at all (a hook that synchronises
// would hide races), then with types.TyVarHook recording the drawn counter values
// into per-goroutine buffers (no synchronisation either: the buffers are found
// through a map that is only read inside the window).

import (
	"bytes"
	"fmt"
	"math/rand"
	"runtime"
	"strconv"
	"sync"

	"github.com/goghcrow/yae"
	"github.com/goghcrow/yae/compiler"
	"github.com/goghcrow/yae/types"
	"github.com/goghcrow/yae/val"
)

func init() {
	families["conc"] = &Family{Run: runConc, Fresh: true}
}

var quietLog bool

func goid() int64 {
	var buf [64]byte
	n := runtime.Stack(buf[:], false)
	// "goroutine 123 [running]:"
	f := bytes.Fields(buf[:n])
	id, _ := strconv.ParseInt(string(f[1]), 10, 64)
	return id
}

func quietEngine(pre, post A, comp compiler.Compiler) *yae.Expr {
	ex := yae.NewExpr()
	for _, id := range pre {
		ex.RegisterFun(userFuns[id.(string)]())
	}
	if comp != nil {
		ex.UseCompiler(comp)
	}
	if len(post) > 0 {
		if _, err := ex.Compile("1", types.NewEnv()); err != nil {
			panic("warm-up compile failed: " + err.Error())
		}
		for _, id := range post {
			ex.RegisterFun(userFuns[id.(string)]())
		}
	}
	return ex
}

func overrideEnv(env A, ov A) A {
	out := A{}
	for _, b := range env {
		bj := obj(b)
		rep := b
		for _, o := range ov {
			if str(obj(o)["n"]) == str(bj["n"]) {
				rep = o
			}
		}
		out = append(out, rep)
	}
	return out
}

type concOut struct {
	compile string // ok | error | panic
	msg     string
	o       outcome
}

func (r concOut) J() J {
	if r.compile != "ok" {
		return J{"class": "reject", "how": r.compile, "v": J{"k": "nil"}, "kind": "", "msg": clip(r.msg, 160)}
	}
	j := J{"v": J{"k": "nil"}, "kind": ""}
	switch {
	case r.o.pan != nil:
		j["class"] = "fail"
		j["how"] = "panic"
		j["kind"] = classify(r.o.pan)
		j["msg"] = clip(fmt.Sprint(r.o.pan), 160)
	case r.o.err != nil:
		j["class"] = "fail"
		j["how"] = "error"
		j["kind"] = classify(r.o.err.Error())
		j["msg"] = clip(r.o.err.Error(), 160)
	default:
		j["class"] = "value"
		j["v"] = valJ(r.o.v)
	}
	return j
}

func compileOn(ex *yae.Expr, src string, te *types.Env) (c yae.Callable, res concOut) {
	var err error
	var pan interface{}
	func() {
		defer func() { pan = recover() }()
		c, err = ex.Compile(src, te)
	}()
	switch {
	case pan != nil:
		return nil, concOut{compile: "panic", msg: fmt.Sprint(pan)}
	case err != nil:
		return nil, concOut{compile: "error", msg: err.Error()}
	}
	return c, concOut{compile: "ok"}
}

func runConc(c J) J {
	resolveEnv(c)
	defer func() {
		delete(c, "env")
		delete(c, "pre")
		delete(c, "post")
	}()
	quietLog = true
	kind := str(c["kind"])
	G := toInt(c["g"])
	rounds := toInt(c["rounds"])
	pre, post := arr(c["pre"]), arr(c["post"])
	var comp compiler.Compiler
	for _, b := range backends {
		if b.name == str(c["backend"]) {
			comp = b.comp
		}
	}
	progs := arr(c["progs"])
	ovs := arr(c["ovs"])
	srcs := make([]string, G)
	tenvs := make([]func() *types.Env, G)
	venvs := make([]func() *val.Env, G)
	for g := 0; g < G; g++ {
		srcs[g] = renderSrc(obj(progs[g%len(progs)]), 0)
		og := g
		if kind == "shared" {
			og = 0
		}
		tenvs[g], venvs[g] = envFromJ(overrideEnv(arr(c["env"]), arr(ovs[og%len(ovs)])))
	}
	if kind == "shared" {
		// every goroutine is handed the SAME environment object; its lists have spare capacity (as lists built
		// with ListVal.Add have), so that a built-in appending to an operand in place would write into shared memory
		one := venvs[0]()
		one.ForEach(func(name string, v *val.Val) {
			if v.Type != nil && v.Type.Kind == types.KList {
				l := v.List()
				l.V = append(make([]*val.Val, 0, len(l.V)+4), l.V...)
			}
		})
		for g := 0; g < G; g++ {
			venvs[g] = func() *val.Env { return one }
		}
	}
	obs := J{}
	ss := A{}
	for _, s := range srcs {
		ss = append(ss, cps(s))
	}
	obs["srcs"] = ss

	rng := rand.New(rand.NewSource(int64(toInt(c["id"]))*7919 + int64(toInt(nzInt(c["oseed"])))))
	window := func(hook bool) (A, A) {
		results := make([][]concOut, G)
		draws := make([][]int64, G)
		bufs := map[int64]*[]int64{}
		offsets := make([]int, G)
		for g := range offsets {
			offsets[g] = rng.Intn(3000)
		}
		// shared objects of the scenario, built before the window
		var shared *yae.Expr
		var sharedCall yae.Callable
		switch kind {
		case "warm", "mixed", "invoke", "shared":
			shared = quietEngine(pre, post, comp)
			var res concOut
			sharedCall, res = compileOn(shared, srcs[0], tenvs[0]())
			if res.compile != "ok" {
				sharedCall = nil
			}
		}
		var reg sync.Mutex
		var ready, finished sync.WaitGroup
		start := make(chan struct{})
		for g := 0; g < G; g++ {
			g := g
			ready.Add(1)
			finished.Add(1)
			go func() {
				defer finished.Done()
				reg.Lock()
				bufs[goid()] = &draws[g]
				reg.Unlock()
				ready.Done()
				<-start
				x := 0
				for i := 0; i < offsets[g]; i++ {
					x += i
				}
				_ = x
				compileHere := kind == "engines" || kind == "warm" || (kind == "mixed" && g%2 == 0)
				var call yae.Callable
				res := concOut{compile: "ok"}
				if compileHere {
					ex := shared
					if kind == "engines" {
						ex = quietEngine(pre, post, comp)
					}
					call, res = compileOn(ex, srcs[g], tenvs[g]())
				} else {
					call = sharedCall
					if call == nil {
						res = concOut{compile: "error", msg: "shared compile failed"}
					}
				}
				for r := 0; r < rounds; r++ {
					out := res
					if res.compile == "ok" {
						out.o = invoke(func() (*val.Val, error) { return call(venvs[g]()) })
					}
					results[g] = append(results[g], out)
				}
			}()
		}
		ready.Wait()
		if hook {
			types.TyVarHook = func(n int64) {
				if b := bufs[goid()]; b != nil {
					*b = append(*b, n)
				}
			}
		}
		close(start)
		finished.Wait()
		types.TyVarHook = nil
		rj := A{}
		for g := 0; g < G; g++ {
			row := A{}
			for _, r := range results[g] {
				row = append(row, r.J())
			}
			rj = append(rj, row)
		}
		dj := A{}
		for g := 0; g < G; g++ {
			row := A{}
			for _, n := range draws[g] {
				row = append(row, n)
			}
			dj = append(dj, row)
		}
		return rj, dj
	}
	obs["conc"], _ = window(false)
	obs["conc2"], obs["draws"] = window(true)
	// (the reference runs come AFTER the windows, so that whatever is initialised lazily on first use --
	// the time-zone cache -- is first used concurrently)
	// ---- alone: the same work, one goroutine, fresh engine each
	alone := make([]concOut, G)
	for g := 0; g < G; g++ {
		ex := quietEngine(pre, post, comp)
		call, res := compileOn(ex, srcs[g], tenvs[g]())
		if res.compile == "ok" {
			res.o = invoke(func() (*val.Val, error) { return call(venvs[g]()) })
		}
		alone[g] = res
	}
	aj := A{}
	for _, r := range alone {
		aj = append(aj, r.J())
	}
	obs["alone"] = aj

	// for invoke / odd mixed goroutines the shared callable was compiled from srcs[0] with goroutine 0's
	// types: what "alone" means for them is srcs[0] in their own environment
	if kind == "invoke" || kind == "mixed" || kind == "shared" {
		aj := A{}
		for g := 0; g < G; g++ {
			if kind == "mixed" && g%2 == 0 {
				aj = append(aj, alone[g].J())
				continue
			}
			ex := quietEngine(pre, post, comp)
			call, res := compileOn(ex, srcs[0], tenvs[0]())
			if res.compile == "ok" {
				res.o = invoke(func() (*val.Val, error) { return call(venvs[g]()) })
			}
			aj = append(aj, res.J())
		}
		obs["alone"] = aj
	}
	return obs
}
