---------------------------- MODULE Trace_Api ----------------------------
(***************************************************************************)
(* Mode C for the API family (C07, C12, C13): recorded histories of        *)
(* compile / invoke / eval / debug over shared Go objects, per back end.   *)
(*   obs.runs[b] = << [class, v, log, stdout, reps, hostsame, kind] ... >> *)
(* Every step's outcome is judged against StepOutcome (which depends only  *)
(* on the contents of the objects named), every repetition must agree,     *)
(* the outcome alphabet is {value, error}, nothing is written to standard  *)
(* output except by print, host values are left as they were.              *)
(***************************************************************************)
EXTENDS Gen_Api

Obs == ObsLoaded
N == Len(Obs)
Backs == {"vm", "vmct", "closure", "interp"}

RECURSIVE ProjA(_)
ProjA(v) ==
  CASE v.k = "list" -> [v EXCEPT !.els = [i \in 1..Len(v.els) |-> ProjA(v.els[i])]]
    [] v.k = "map" -> [v EXCEPT !.ents = [i \in 1..Len(v.ents) |-> [v.ents[i] EXCEPT !.val = ProjA(@)]]]
    [] v.k = "obj" -> [v EXCEPT !.vals = [i \in 1..Len(v.vals) |-> ProjA(v.vals[i])]]
    [] v.k = "maybe" -> IF v.some THEN [v EXCEPT !.v = ProjA(@)] ELSE v
    [] OTHER -> v
LogA(log) == [i \in 1..Len(log) |-> [f |-> log[i].f, args |-> [j \in 1..Len(log[i].args) |-> NormVal(ProjA(log[i].args[j]))]]]
LogO(log) == [i \in 1..Len(log) |-> [f |-> log[i].f, args |-> [j \in 1..Len(log[i].args) |-> NormVal(log[i].args[j])]]]
\* values of object type: host structs carry their fields in the host's order; compare modulo nothing else
HasPrint(src) == \E at \in 1..Len(src) : IsPrefixAt(N_print, src, at)

StepWhy(h, i, o, ex) ==
  LET s == h[i]
      src == IF s.op = "invoke" THEN h[CompileSteps(h)[s.call]].src ELSE s.src IN
  IF o.class = "unrealisable" \/ ex.class = "ood" THEN {}
  ELSE IF s.op = "hosteval" THEN
    \* Eval, Compile (+ call) and Debug on an unusual host value: a value or an error, and the right one
    LET want == IF s.src = SRC_one THEN HostExpect(s.host, s.src) ELSE "error" IN
    (IF \E k \in DOMAIN o.api : o.api[k] \notin {"value", "error"} THEN {"panic"} ELSE {})
    \cup (IF \E k \in DOMAIN o.api : o.api[k] \in {"value", "error"} /\ o.api[k] # want THEN {"hostoutcome"} ELSE {})
  ELSE
    \* C12: the outcome alphabet
    (IF o.class \in {"panic", "died"} THEN {"panic"} ELSE {})
    \* C07 / C13: the outcome the contents dictate
    \cup (IF o.class \notin {"panic", "died"} /\ ex.class \in {"value", "error", "compiled"} /\ o.class # ex.class
          THEN {IF ex.class = "error" /\ o.class = "value" THEN "accepted" ELSE IF ex.class # "error" /\ o.class = "error" THEN "rejected" ELSE "outcome"} ELSE {})
    \cup (IF ex.class = "value" /\ o.class = "value" /\ NormVal(o.v) # NormVal(ProjA(ex.v)) THEN {"value"} ELSE {})
    \cup (IF ex.class \in {"value", "error"} /\ o.class \in {"value", "error"} /\ LogO(o.log) # LogA(ex.log) THEN {"log"} ELSE {})
    \* C13: repetitions of the same step agree; quiet; host data untouched
    \cup (IF \E r \in 1..Len(o.reps) : o.reps[r] # o.reps[1] THEN {"nondet"} ELSE {})
    \cup (IF ~HasPrint(src) /\ o.stdout # <<>> THEN {"stdout"} ELSE {})
    \cup (IF ~o.hostsame THEN {"hostmutated"} ELSE {})

Judge(rec) ==
  LET o == rec.obs IN
  IF "died" \in DOMAIN o THEN {"panic"}
  ELSE LET exs == Outcomes(rec.h, Ops, Pre, EnvObjs, EnvObjs) IN     \* once, shared by the back ends
       UNION {UNION {{w \o "_" \o b : w \in StepWhy(rec.h, i, o.runs[b][i], exs[i])} : i \in 1..Len(rec.h)} : b \in Backs}

InitT == st \in {[c |-> c, l |-> ChunkLo(c, N)] : c \in 1..NChunks}
NextT == /\ st.l <= ChunkHi(st.c, N)
         /\ EmitVerdict(Obs[st.l].id, Judge(Obs[st.l]), "")
         /\ st' = [st EXCEPT !.l = @ + 1]
=============================================================================
