package main

// family "front" (C08, C09, C12): an operator table and a source text go through
// the real lexer and parser; recorded: tokens with positions (or the lexing
// error), the parse tree with every node's span and debug column (or the syntax
// error), and the number of eat() calls the parser made.

import (
	"math/rand"
	"sync/atomic"

	"github.com/goghcrow/yae/parser"
	"github.com/goghcrow/yae/parser/ast"
	"github.com/goghcrow/yae/parser/lexer"
	"github.com/goghcrow/yae/parser/oper"
	"github.com/goghcrow/yae/parser/token"
)

func init() {
	families["front"] = &Family{Gen: genFront, Run: runFront}
}

var fixities = map[string]oper.Fixity{"prefix": oper.PREFIX, "infixn": oper.INFIX_N, "infixl": oper.INFIX_L,
	"infixr": oper.INFIX_R, "postfix": oper.POSTFIX}

func opsFromJ(a A) []oper.Operator {
	ops := make([]oper.Operator, 0, len(a))
	for _, x := range a {
		o := obj(x)
		ops = append(ops, oper.Operator{Kind: token.Kind(str(o["k"])), BP: oper.BP(float32(toInt(o["bp"])) / 2), Fixity: fixities[o["fix"].(string)]})
	}
	return ops
}

func tokJ(t *token.Token) J {
	return J{"k": cps(string(t.Kind)), "lex": cps(t.Lexeme), "idx": t.Idx, "end": t.IdxEnd, "line": t.Line, "col": t.Col}
}

// tree with positions and lexemes (the parser's view, before desugaring)
func cstJ(e ast.Expr) J {
	j := astJ(e, true)
	return lexify(e, j)
}

// replaces decoded literal payloads by the lexeme (the parser specification keeps lexemes)
func lexify(e ast.Expr, j J) J {
	p := e.Position()
	pos := J{"idx": p.Idx, "end": p.IdxEnd, "line": p.Line, "col": p.Col}
	posOf := func(a interface{}) J {
		x := arr(a)
		return J{"idx": toInt(x[0]), "end": toInt(x[1]), "line": toInt(x[2]), "col": toInt(x[3])}
	}
	switch x := e.(type) {
	case *ast.StrExpr:
		return J{"k": "str", "lex": cps(x.Text), "pos": pos}
	case *ast.NumExpr:
		return J{"k": "num", "lex": cps(x.Text), "pos": pos}
	case *ast.TimeExpr:
		return J{"k": "time", "lex": cps(x.Text), "pos": pos}
	case *ast.BoolExpr:
		return J{"k": "bool", "lex": cps(x.Text), "pos": pos}
	case *ast.IdentExpr:
		return J{"k": "id", "n": cps(x.Name), "pos": pos}
	case *ast.ListExpr:
		els := A{}
		for _, el := range x.Elems {
			els = append(els, cstJ(el))
		}
		return J{"k": "list", "els": els, "pos": pos}
	case *ast.MapExpr:
		ps := A{}
		for _, pr := range x.Pairs {
			ps = append(ps, J{"key": cstJ(pr.Key), "val": cstJ(pr.Val)})
		}
		return J{"k": "map", "ps": ps, "pos": pos}
	case *ast.ObjExpr:
		fs := A{}
		for _, f := range x.Fields {
			fs = append(fs, J{"n": cps(f.Name), "v": cstJ(f.Val)})
		}
		return J{"k": "obj", "fs": fs, "pos": pos}
	case *ast.CallExpr:
		args := A{}
		for _, a := range x.Args {
			args = append(args, cstJ(a))
		}
		return J{"k": "call", "f": cstJ(x.Callee), "args": args, "dc": int(x.DBGCol), "pos": pos}
	case *ast.SubscriptExpr:
		return J{"k": "sub", "x": cstJ(x.Var), "i": cstJ(x.Idx), "dc": int(x.DBGCol), "pos": pos}
	case *ast.MemberExpr:
		return J{"k": "mem", "x": cstJ(x.Obj), "n": cps(x.Field.Name), "npos": posOf(j["npos"]), "dc": int(x.DBGCol), "pos": pos}
	case *ast.UnaryExpr:
		return J{"k": "un", "op": cps(x.Name), "prefix": x.Prefix, "e": cstJ(x.LHS), "oppos": posOf(j["oppos"]), "pos": pos}
	case *ast.BinaryExpr:
		return J{"k": "bin", "op": cps(x.Name), "fix": j["fix"], "l": cstJ(x.LHS), "r": cstJ(x.RHS), "oppos": posOf(j["oppos"]), "pos": pos}
	case *ast.TenaryExpr:
		return J{"k": "tern", "op": cps(x.Name), "l": cstJ(x.Left), "m": cstJ(x.Mid), "r": cstJ(x.Right), "oppos": posOf(j["oppos"]), "pos": pos}
	case *ast.GroupExpr:
		return J{"k": "group", "e": cstJ(x.SubExpr), "pos": pos}
	}
	return j
}

func runFront(c J) J {
	ops := opsFromJ(arr(c["ops"]))
	src := str(c["src"])
	obs := J{}
	var toks []*token.Token
	cl, msg := guard(func() { toks = lexer.NewLexer(append([]oper.Operator{}, ops...)).Lex(src) })
	if cl != "ok" {
		obs["lex"] = J{"ok": false, "msg": msg}
		obs["parse"] = J{"ok": false, "why": "lex", "eats": 0}
		return obs
	}
	tj := A{}
	for _, t := range toks {
		tj = append(tj, tokJ(t))
	}
	obs["lex"] = J{"ok": true, "toks": tj}
	var tree ast.Expr
	before := atomic.LoadInt64(&parser.Eats)
	cl, msg = guard(func() { tree = parser.NewParser(append([]oper.Operator{}, ops...)).Parse(toks) })
	eats := int(atomic.LoadInt64(&parser.Eats) - before)
	if cl != "ok" {
		obs["parse"] = J{"ok": false, "msg": msg, "eats": eats}
		return obs
	}
	obs["parse"] = J{"ok": true, "tree": cstJ(tree), "eats": eats}
	return obs
}

func genFront(rng *rand.Rand, n int, mode string) []J { return genFrontCases(rng, n, mode) }
