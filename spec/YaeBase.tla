---------------------------- MODULE YaeBase ----------------------------
(***************************************************************************)
(* Text, ordering, decimal and civil-time arithmetic shared by every yae   *)
(* specification module.  All user-visible text is a sequence of Unicode   *)
(* code points (TLC cannot look inside a TLA+ string); TLA+ strings are    *)
(* used only as tags.                                                      *)
(***************************************************************************)
EXTENDS Integers, Sequences, FiniteSets, TLC, SequencesExt, FiniteSetsExt, YaeNames

MinI(a, b) == IF a < b THEN a ELSE b
MaxI(a, b) == IF a < b THEN b ELSE a
AbsI(a) == IF a < 0 THEN -a ELSE a

\* Go's `<` on valid UTF-8 strings is code-point lexicographic order.
SeqLT(a, b) ==
  \/ Len(a) < Len(b) /\ \A j \in 1..Len(a) : a[j] = b[j]
  \/ \E i \in 1..MinI(Len(a), Len(b)) : a[i] < b[i] /\ \A j \in 1..(i - 1) : a[j] = b[j]
SeqLE(a, b) == a = b \/ SeqLT(a, b)

IsPrefixOf(p, s) == Len(p) <= Len(s) /\ \A i \in 1..Len(p) : s[i] = p[i]
IsPrefixAt(p, s, at) == at + Len(p) - 1 <= Len(s) /\ \A i \in 1..Len(p) : s[at + i - 1] = p[i]
Sub(s, from, to) == LET t == MinI(to, Len(s)) f == MaxI(from, 1) IN IF t < f THEN <<>> ELSE SubSeq(s, f, t)    \* inclusive, 1-based, clipped
IndexOf(s, x) == IF \E i \in 1..Len(s) : s[i] = x THEN CHOOSE i \in 1..Len(s) : s[i] = x /\ \A j \in 1..(i - 1) : s[j] # x ELSE 0
SeqRange(s) == {s[i] : i \in 1..Len(s)}
NoDup(s) == \A i, j \in 1..Len(s) : i # j => s[i] # s[j]

Concat(ss) == FoldLeft(LAMBDA acc, x : acc \o x, <<>>, ss)
\* util.JoinStr
Join(xs, sep, st, en) ==
  IF xs = <<>> THEN st \o en
  ELSE st \o FoldLeft(LAMBDA acc, x : acc \o sep \o x, xs[1], Tail(xs)) \o en

MapSeq(f(_), s) == [i \in 1..Len(s) |-> f(s[i])]
AllSeq(P(_), s) == \A i \in 1..Len(s) : P(s[i])
AnySeq(P(_), s) == \E i \in 1..Len(s) : P(s[i])
SelectSeqIdx(s, P(_)) == SelectSeq([i \in 1..Len(s) |-> i], P)
Reverse1(s) == [i \in 1..Len(s) |-> s[Len(s) + 1 - i]]
\* stable insertion sort (sequences are short); LT is a strict order
SortBy(s, LT(_, _)) ==
  LET RECURSIVE Ins(_, _)
      Ins(t, x) == IF t = <<>> THEN <<x>>
                   ELSE IF LT(x, t[1]) THEN <<x>> \o t ELSE <<t[1]>> \o Ins(Tail(t), x)
  IN FoldLeft(LAMBDA acc, x : Ins(acc, x), <<>>, s)

(* ---------------- decimal text ---------------- *)
RECURSIVE NatDigits(_)
NatDigits(n) == IF n < 10 THEN <<48 + n>> ELSE NatDigits(n \div 10) \o <<48 + (n % 10)>>
IntDigits(n) == IF n < 0 THEN <<45>> \o NatDigits(-n) ELSE NatDigits(n)
RECURSIVE PadLeft(_, _, _)
PadLeft(s, w, c) == IF Len(s) >= w THEN s ELSE PadLeft(<<c>> \o s, w, c)
Pad2(n) == PadLeft(NatDigits(n), 2, 48)
RECURSIVE StripTrailing(_, _)
StripTrailing(s, c) == IF s # <<>> /\ s[Len(s)] = c THEN StripTrailing(Sub(s, 1, Len(s) - 1), c) ELSE s
RECURSIVE Pow(_, _)
Pow(b, e) == IF e = 0 THEN 1 ELSE b * Pow(b, e - 1)
HexDigit(d) == IF d < 10 THEN 48 + d ELSE 87 + d          \* lower-case
IsDigit(c) == c >= 48 /\ c <= 57
RECURSIVE DigitsToNat(_)
DigitsToNat(s) == IF s = <<>> THEN 0 ELSE DigitsToNat(Sub(s, 1, Len(s) - 1)) * 10 + (s[Len(s)] - 48)

(* ---------------- strconv.Quote on the modelled alphabet ---------------- *)
\* printable ASCII, the C escapes, other control characters as \xNN; code points
\* >= 161 in the modelled alphabet are printable and pass through unchanged.
QuoteChar(c) ==
  CASE c = 34 -> <<92, 34>>
    [] c = 92 -> <<92, 92>>
    [] c = 7  -> <<92, 97>>
    [] c = 8  -> <<92, 98>>
    [] c = 12 -> <<92, 102>>
    [] c = 10 -> <<92, 110>>
    [] c = 13 -> <<92, 114>>
    [] c = 9  -> <<92, 116>>
    [] c = 11 -> <<92, 118>>
    [] c < 32 \/ c = 127 -> <<92, 120, HexDigit(c \div 16), HexDigit(c % 16)>>
    [] OTHER -> <<c>>
Quote(s) == <<34>> \o Concat([i \in 1..Len(s) |-> QuoteChar(s[i])]) \o <<34>>
QuotableCP(c) == c < 127 \/ c = 127 \/ c \in {233, 26195, 25105, 128657, 955, 8704}

(* ---------------- civil time (UTC) ---------------- *)
\* days since 1970-01-01 -> [y, m, d]   (Howard Hinnant's algorithm, non-negative days)
CivilFromDays(z0) ==
  LET z == z0 + 719468
      era == z \div 146097
      doe == z - era * 146097
      yoe == (doe - doe \div 1460 + doe \div 36524 - doe \div 146096) \div 365
      y == yoe + era * 400
      doy == doe - (365 * yoe + yoe \div 4 - yoe \div 100)
      mp == (5 * doy + 2) \div 153
      d == doy - (153 * mp + 2) \div 5 + 1
      m == IF mp < 10 THEN mp + 3 ELSE mp - 9
  IN [y |-> IF m <= 2 THEN y + 1 ELSE y, m |-> m, d |-> d]
DaysFromCivil(y0, m, d) ==
  LET y == IF m <= 2 THEN y0 - 1 ELSE y0
      era == y \div 400
      yoe == y - era * 400
      doy == (153 * (IF m > 2 THEN m - 3 ELSE m + 9) + 2) \div 5 + d - 1
      doe == yoe * 365 + yoe \div 4 - yoe \div 100 + doy
  IN era * 146097 + doe - 719468
\* time.Unix(ts, 0).String() with TZ=UTC:  "2006-01-02 15:04:05 +0000 UTC"
TimeText(ts) ==
  LET days == ts \div 86400
      sod == ts % 86400
      c == CivilFromDays(days)
  IN PadLeft(NatDigits(c.y), 4, 48) \o <<45>> \o Pad2(c.m) \o <<45>> \o Pad2(c.d) \o <<32>>
       \o Pad2(sod \div 3600) \o <<58>> \o Pad2((sod % 3600) \div 60) \o <<58>> \o Pad2(sod % 60) \o N_utc

=============================================================================
