---------------------------- MODULE Gen_Sql ----------------------------
(***************************************************************************)
(* C20, Mode A + case generation: criteria trees over AND / OR / NOT up to *)
(* depth P_SIZE over two leaf conditions (every parent / child / grand-    *)
(* child connective combination on either side), every condition kind with *)
(* operand pools (adversarial strings, numbers incl. big, times, names     *)
(* bound and unbound in the run-time environment).                         *)
(***************************************************************************)
EXTENDS YaeSql, YaeNum, YaeIO

VARIABLE st
Map1(L, Mk(_)) == [i \in 1..Len(L) |-> Mk(L[i])]
Prod2(L1, L2, Mk(_, _)) ==
  [k \in 1..(Len(L1) * Len(L2)) |-> Mk(L1[((k - 1) \div Len(L2)) + 1], L2[((k - 1) % Len(L2)) + 1])]
Cond(f, op, args) == [k |-> "cond", field |-> f, op |-> op, args |-> args]
Grp(lop, cs) == [k |-> "group", lop |-> lop, cs |-> cs]
ONum(n) == [o |-> "num", n |-> n]
OStr(s) == [o |-> "str", s |-> s]
OBool(b) == [o |-> "bool", b |-> b]
OTime(t) == [o |-> "time", t |-> t]
OName(n) == [o |-> "name", n |-> n]
OList(els) == [o |-> "list", els |-> els]
\* columns: a, b: num ; s: str ; f: bool ; t: time ; u (num) and w (str) are bound in the run-time environment
LeafA == Cond(N_a, ">", <<ONum(NInt(1))>>)
LeafB == Cond(N_b, "<", <<ONum(NInt(2))>>)
RECURSIVE Trees(_)
Trees(d) == IF d = 0 THEN <<LeafA, LeafB>>
            ELSE LET t == Trees(d - 1) IN
                 <<LeafA, LeafB>> \o Map1(t, LAMBDA x : Grp("NOT", <<x>>))
                   \o Prod2(t, t, LAMBDA x, y : Grp("AND", <<x, y>>)) \o Prod2(t, t, LAMBDA x, y : Grp("OR", <<x, y>>))
StrPool == <<<<>>, <<97>>, <<39>>, <<34>>, <<92>>, <<97, 34, 32, 79, 82, 32, 49, 61, 49, 32, 45, 45, 32>>, <<67, 58, 92, 100, 105, 114, 92>>,
             <<34, 34>>, <<92, 34>>, <<37, 92, 95, 37>>, <<10>>, <<233, 26195>>, <<120, 92, 92>>, <<96>>, <<39, 39>>, <<1>>>>
NumPool == <<NInt(0), NInt(1), NInt(-1), Fin(5, 1, 0), Fin(-1, 1, 0), NInt(1073741823),
             Fin(3, 0, 1), Fin(2, 0, -1), Fin(201, 6, 0),       \* need all 53 bits / many digits
             [k |-> "big", neg |-> FALSE, d |-> <<9,2,2,3,3,7,2,0,3,6,8,5,4,7,7,5,8,0,8>>, r |-> <<57,50,50,51,51,55,50,48,51,54,56,53,52,55,55,54,48,48,48>>],
             [k |-> "big", neg |-> FALSE, d |-> <<1,0,0,0,0,0,0,0,0,0,0,0,0,0,0,0,0,0,0,0>>, r |-> <<49,48,48,48,48,48,48,48,48,48,48,48,48,48,48,48,48,48,48,48>>],
             [k |-> "big", neg |-> FALSE, d |-> <<2,0,0,0,0,0,0,0,0,0,0,0,0,0,0,0,0,0,0,0>>, r |-> <<50,48,48,48,48,48,48,48,48,48,48,48,48,48,48,48,48,48,48,48>>]>>
NumOps == <<"=", "<>", "<", "<=", ">", ">=">>
CondPool ==
  Prod2(NumOps, NumPool, LAMBDA op, n : Cond(N_a, op, <<ONum(n)>>))
    \o Prod2(<<"=", "<>", "LIKE">>, StrPool, LAMBDA op, x : Cond(N_s, op, <<OStr(x)>>))
    \o Map1(StrPool, LAMBDA x : Cond(N_s, "IN", <<OList(<<OStr(x), OStr(<<122>>)>>)>>))
    \o Map1(NumPool, LAMBDA n : Cond(N_a, "BETWEEN", <<ONum(NInt(0)), ONum(n)>>))
    \o Map1(NumPool, LAMBDA n : Cond(N_a, "IN", <<OList(<<ONum(n), ONum(NInt(7))>>)>>))
    \o <<Cond(N_f, "=", <<OBool(TRUE)>>), Cond(N_f, "<>", <<OBool(FALSE)>>), Cond(N_t, ">=", <<OTime(86400)>>),
         Cond(N_t, "BETWEEN", <<OTime(0), OTime(86400)>>), Cond(N_a, "ISNULL", <<>>), Cond(N_s, "ISNULL", <<>>),
         Cond(N_a, "=", <<OName(N_b)>>), Cond(N_a, "=", <<OName(N_u)>>), Cond(N_u, ">", <<OName(N_a)>>), Cond(N_s, "=", <<OName(N_w)>>),
         Cond(N_w, "LIKE", <<OStr(<<37>>)>>), Cond(N_a, "IN", <<OList(<<OName(N_u), OName(N_b), ONum(NInt(3))>>)>>),
         Cond(N_a, "BETWEEN", <<OName(N_u), OName(N_b)>>)>>
\* each condition kind at each leaf of the depth-1 shapes
Shapes1(c) == <<Grp("NOT", <<Grp("AND", <<c, Grp("OR", <<LeafA, c>>)>>)>>), Grp("NOT", <<Grp("AND", <<Grp("OR", <<c, LeafB>>), c>>)>>),
                Grp("NOT", <<Grp("OR", <<c, Grp("AND", <<LeafA, c>>)>>)>>), Grp("AND", <<Grp("NOT", <<Grp("OR", <<c, LeafB>>)>>), Grp("OR", <<LeafA, c>>)>>),
                c, Grp("NOT", <<c>>), Grp("AND", <<c, LeafB>>), Grp("OR", <<LeafA, c>>), Grp("AND", <<Grp("OR", <<c, LeafB>>), c>>),
                Grp("NOT", <<Grp("AND", <<c, c>>)>>), Grp("OR", <<Grp("NOT", <<c>>), Grp("AND", <<LeafA, c>>)>>)>>
Universe == IF P_MODE = "trees" THEN Trees(P_SIZE) ELSE Concat(Map1(CondPool, Shapes1))
NU == Len(Universe)
\* the run-time environment binds u (num) and w (str: an adversarial value)
VEnv == <<[n |-> N_u, v |-> VNum(NInt(42))], [n |-> N_w, v |-> VStr(<<34, 32, 79, 82, 32, 34, 34, 61, 34>>)]>>
Init == st \in {[seed |-> i] : i \in 1..64}
Next == /\ "seed" \in DOMAIN st
        /\ \E j \in (((st.seed - 1) * NU) \div 64 + 1)..((st.seed * NU) \div 64) : st' = [c |-> Universe[j]]
IsCase == "c" \in DOMAIN st
Emit == IsCase => EmitCase([fam |-> "sql", c |-> st.c, venv |-> VEnv])

(* C20 on the specification: the text the generation scheme produces, read back with standard precedence,
   has the boolean structure of the criteria tree (up to associativity of AND and of OR) *)
StructurePreserved ==
  IsCase => LET toks == ToSqlToks(st.c, VEnv, 0)
                r == ReadSql(Plain(toks)) IN
            r.ok /\ PlainTree(Flatten(r.n)) = PlainTree(Flatten(CritTree(st.c, VEnv)))
\* every string operand is one literal: the quote that opens it is closed only by its own final quote
OneLiteralPerString ==
  IsCase => LET toks == ToSqlToks(st.c, VEnv, 0) IN
            \A i \in 1..Len(toks) : toks[i].t = "str" =>
               DqEnd(toks[i].raw, 2) = Len(toks[i].raw) + 1
=============================================================================
