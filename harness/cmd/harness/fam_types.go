package main

// family "unify" (C17): types.Equals / types.Unify on pairs of types.

import (
	"fmt"
	"math/rand"
	"sort"

	"github.com/goghcrow/yae/types"
)

func init() {
	families["unify"] = &Family{Gen: genTypePairs, Run: runUnify}
}

func guard(f func()) (class string, msg string) {
	defer func() {
		if r := recover(); r != nil {
			class = "panic"
			msg = clip(fmt.Sprint(r), 200)
		}
	}()
	f()
	return "ok", ""
}

func runUnify(c J) J {
	tb := &typeBuilder{share: boolv(c["shared"])}
	x := tb.build(obj(c["x"]))
	y := tb.build(obj(c["y"]))
	obs := J{}
	var eq, eqrev bool
	cl, msg := guard(func() { eq = types.Equals(x, y) })
	obs["eq"] = J{"class": cl, "v": eq, "msg": msg}
	cl, msg = guard(func() { eqrev = types.Equals(y, x) })
	obs["eqrev"] = J{"class": cl, "v": eqrev, "msg": msg}

	m := map[string]*types.Type{}
	var r *types.Type
	cl, msg = guard(func() { r = types.Unify(x, y, m) })
	// a panic raised by the assertion in types.Map ("invalid type of map's key") is how the
	// code refuses a substitution that would put a non-primitive type in key position
	pk := "none"
	if cl == "panic" {
		switch {
		case hasPrefix(msg, "invalid type of map's key"):
			pk = "keykind"
		case msg == "not support recursive type":
			pk = "recursive"
		default:
			pk = "other"
		}
	}
	u := J{"class": cl, "pk": pk, "msg": msg, "ok": r != nil, "m": substJ(m)}
	if cl == "ok" && r != nil {
		u["t"] = typeJ(r)
	} else {
		u["t"] = J{"k": "none"}
	}
	obs["unify"] = u
	return obs
}

func substJ(m map[string]*types.Type) A {
	names := make([]string, 0, len(m))
	for n := range m {
		names = append(names, n)
	}
	sort.Strings(names)
	out := A{}
	for _, n := range names {
		out = append(out, J{"n": n, "t": typeJ(m[n])})
	}
	return out
}

// ---- seeded generation of deeper pairs (beyond TLC's exhaustive bound)
var fieldNames = []string{"a", "b", "c"}

func randType(rng *rand.Rand, depth int, vars []string, allowBot bool) J {
	atoms := []J{{"k": "num"}, {"k": "str"}, {"k": "bool"}, {"k": "time"}}
	if depth <= 0 || rng.Intn(10) < 3 {
		n := rng.Intn(len(atoms) + len(vars) + 1)
		if n < len(atoms) {
			return atoms[n]
		}
		if n < len(atoms)+len(vars) {
			return J{"k": "var", "n": vars[n-len(atoms)]}
		}
		if allowBot {
			return J{"k": "bot"}
		}
		return J{"k": "num"}
	}
	switch rng.Intn(6) {
	case 0:
		return J{"k": "list", "el": randType(rng, depth-1, vars, allowBot)}
	case 1:
		return J{"k": "maybe", "el": randType(rng, depth-1, vars, allowBot)}
	case 2:
		keys := []J{{"k": "num"}, {"k": "str"}, {"k": "bool"}, {"k": "time"}}
		var key J
		if len(vars) > 0 && rng.Intn(3) == 0 {
			key = J{"k": "var", "n": vars[rng.Intn(len(vars))]}
		} else {
			key = keys[rng.Intn(len(keys))]
		}
		return J{"k": "map", "key": key, "val": randType(rng, depth-1, vars, allowBot)}
	case 3, 4:
		n := 1 + rng.Intn(3)
		perm := rng.Perm(len(fieldNames))[:n]
		fs := A{}
		for _, i := range perm {
			fs = append(fs, J{"n": cps(fieldNames[i]), "t": randType(rng, depth-1, vars, allowBot)})
		}
		return J{"k": "obj", "fs": fs}
	default:
		n := rng.Intn(3)
		ps := A{}
		for i := 0; i < n; i++ {
			ps = append(ps, randType(rng, depth-1, vars, allowBot))
		}
		return J{"k": "fun", "name": cps("f"), "ps": ps, "ret": randType(rng, depth-1, vars, allowBot)}
	}
}

// substitute variables, optionally permuting object fields and mutating one point
func instantiate(rng *rand.Rand, t J, sub map[string]J, permute bool, mutate *bool) J {
	if *mutate && rng.Intn(6) == 0 {
		*mutate = false
		return randType(rng, 1, nil, false)
	}
	switch t["k"] {
	case "var":
		if s, ok := sub[t["n"].(string)]; ok {
			return s
		}
		return t
	case "list", "maybe":
		return J{"k": t["k"], "el": instantiate(rng, obj(t["el"]), sub, permute, mutate)}
	case "map":
		k := instantiate(rng, obj(t["key"]), sub, permute, mutate)
		if kk := k["k"]; kk != "num" && kk != "str" && kk != "bool" && kk != "time" && kk != "var" && kk != "bot" {
			k = J{"k": "str"}
		}
		return J{"k": "map", "key": k, "val": instantiate(rng, obj(t["val"]), sub, permute, mutate)}
	case "obj":
		fs := arr(t["fs"])
		out := make(A, len(fs))
		idx := make([]int, len(fs))
		for i := range idx {
			idx[i] = i
		}
		if permute {
			rng.Shuffle(len(idx), func(i, j int) { idx[i], idx[j] = idx[j], idx[i] })
		}
		for i, j := range idx {
			f := obj(fs[j])
			out[i] = J{"n": f["n"], "t": instantiate(rng, obj(f["t"]), sub, permute, mutate)}
		}
		return J{"k": "obj", "fs": out}
	case "fun":
		ps := A{}
		for _, p := range arr(t["ps"]) {
			ps = append(ps, instantiate(rng, obj(p), sub, permute, mutate))
		}
		return J{"k": "fun", "name": t["name"], "ps": ps, "ret": instantiate(rng, obj(t["ret"]), sub, permute, mutate)}
	}
	return t
}

func genTypePairs(rng *rand.Rand, n int, mode string) []J {
	out := make([]J, 0, n)
	vars := []string{"a", "b", "c"}
	for i := 0; i < n; i++ {
		depth := 1 + rng.Intn(3)
		x := randType(rng, depth, vars, rng.Intn(4) == 0)
		var y J
		switch rng.Intn(4) {
		case 0: // unrelated
			y = randType(rng, depth, vars, rng.Intn(4) == 0)
		case 1: // instance with permuted fields
			sub := map[string]J{}
			for _, v := range vars {
				sub[v] = randType(rng, 1, nil, false)
			}
			no := false
			y = instantiate(rng, x, sub, true, &no)
		case 2: // mutated instance
			sub := map[string]J{}
			for _, v := range vars {
				sub[v] = randType(rng, 1, nil, false)
			}
			yes := true
			y = instantiate(rng, x, sub, rng.Intn(2) == 0, &yes)
		default: // pattern vs pattern sharing variables
			sub := map[string]J{"a": {"k": "var", "n": "b"}, "c": randType(rng, 1, vars, false)}
			no := false
			y = instantiate(rng, x, sub, rng.Intn(2) == 0, &no)
		}
		c := J{"fam": "unify", "x": x, "y": y}
		if rng.Intn(3) == 0 {
			// argument tuples as the outermost constructor, as the checker uses them
			x2 := randType(rng, 1, vars, false)
			no := false
			y2 := instantiate(rng, x2, map[string]J{"a": randType(rng, 1, nil, false)}, false, &no)
			c["x"] = J{"k": "tuple", "ts": A{x, x2}}
			c["y"] = J{"k": "tuple", "ts": A{y, y2}}
		}
		if mode == "shared" || (mode == "" && rng.Intn(4) == 0) {
			c["shared"] = true
		}
		out = append(out, c)
	}
	return out
}
