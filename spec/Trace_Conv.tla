---------------------------- MODULE Trace_Conv ----------------------------
(***************************************************************************)
(* Mode C for host-data conversion (C15, C16): conv.ValOf / conv.TypeOf on *)
(* reflection-built Go values against ConvVal / TypeOfGo, the properties   *)
(* re-evaluated on the observed value, and for pairs of one Go type:       *)
(* compiled against the first, invoked with the second.                    *)
(***************************************************************************)
EXTENDS YaeConv, YaeIO

Obs == ObsLoaded
N == Len(Obs)
VARIABLE st

\* facade.envCheck
EnvOK(tenv, venv) ==
  \A i \in 1..Len(tenv) : LET j == VEnvIdx(venv, tenv[i].n) IN j # 0 /\ TypeEq(tenv[i].t, TypeOfVal(venv[j].v))
EnvOfObj(v) == [i \in 1..Len(v.vals) |-> [n |-> v.ty.fs[i].n, v |-> v.vals[i]]]
OneWhy(g, o, tag) ==
  LET c == ConvVal(g, 0)
      t == TypeOfGo(g)
      ood == (c.ok /\ c.v.k = "ood") \/ (t.ok /\ t.t.k = "ood") IN
  IF ood THEN {}
  ELSE (IF o.valof.class = "panic" \/ o.typeof.class = "panic" THEN {"panic" \o tag} ELSE {})
       \cup (IF o.valof.class # "panic" /\ (o.valof.class = "value") # c.ok THEN {"convok" \o tag} ELSE {})
       \cup (IF o.valof.class = "value" /\ c.ok /\ NormVal(o.valof.v) # NormVal(c.v) THEN {"faithful" \o tag} ELSE {})
       \cup (IF o.typeof.class # "panic" /\ (o.typeof.class = "value") # t.ok THEN {"typeok" \o tag} ELSE {})
       \cup (IF o.typeof.class = "value" /\ t.ok /\ o.typeof.t # t.t THEN {"type" \o tag} ELSE {})
       \* the property on the observed answers: well formed, and of the reported type
       \cup (IF o.valof.class = "value" /\ ~WellFormed(o.valof.v) THEN {"wellformed" \o tag} ELSE {})
       \cup (IF o.valof.class = "value" /\ o.typeof.class = "value" /\ WellFormed(o.valof.v) /\ ~TypeEq(TypeOfVal(o.valof.v), o.typeof.t)
             THEN {"valtype" \o tag} ELSE {})
Judge(rec) ==
  LET o == rec.obs IN
  IF "died" \in DOMAIN o THEN {"panic"}
  ELSE OneWhy(rec.a, o.a, "_a")
       \cup (IF "b" \in DOMAIN rec THEN
               OneWhy(rec.b, o.b, "_b")
               \cup (LET ta == TypeOfGo(rec.a)
                         vb == ConvVal(rec.b, 0)
                         compiles == ta.ok /\ ta.t.k = "obj"
                         accepts == compiles /\ vb.ok /\ vb.v.k = "obj"
                                      /\ EnvOK([i \in 1..Len(ta.t.fs) |-> [n |-> ta.t.fs[i].n, t |-> ta.t.fs[i].t]], EnvOfObj(vb.v)) IN
                     (IF o.pair.compile = "panic" \/ o.pair.invoke = "panic" THEN {"panic_pair"} ELSE {})
                     \cup (IF (o.pair.compile = "ok") # compiles THEN {"paircompile"} ELSE {})
                     \cup (IF o.pair.compile = "ok" /\ compiles /\ (o.pair.invoke = "value") # accepts THEN {"pairaccept"} ELSE {})
                     \* ... and the same after the callable has been used with the compile-time sample itself
                     \cup (IF o.pair.compile = "ok" /\ compiles /\ o.pair.warm \in {"value", "error"} /\ (o.pair.warm = "value") # accepts THEN {"pairwarm"} ELSE {})
                     \* ... and a later compilation against b itself accepts b exactly when b is an environment at all
                     \cup (LET tb == TypeOfGo(rec.b) IN
                           IF "second" \in DOMAIN o.pair /\ o.pair.second # "none" /\ ~(tb.ok /\ tb.t.k = "ood") /\ ~(vb.ok /\ vb.v.k = "ood")
                              /\ (o.pair.second = "value") # (tb.ok /\ tb.t.k = "obj" /\ vb.ok /\ vb.v.k = "obj")
                           THEN {"pairsecond"} ELSE {}))
             ELSE {})

Init == st \in {[c |-> c, l |-> ChunkLo(c, N)] : c \in 1..NChunks}
Next == /\ st.l <= ChunkHi(st.c, N)
        /\ EmitVerdict(Obs[st.l].id, Judge(Obs[st.l]), "")
        /\ st' = [st EXCEPT !.l = @ + 1]
=============================================================================
