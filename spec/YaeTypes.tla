---------------------------- MODULE YaeTypes ----------------------------
(***************************************************************************)
(* Types, type equality, substitution, unification, overload tables and    *)
(* the type checker of yae, transcribed function-for-function from         *)
(* types/{equals,unify,typecheck,env,overload}.go so that the Go code can  *)
(* be bound to it (same inputs, same results, same substitution maps).     *)
(*                                                                         *)
(*   [k |-> "num" | "str" | "bool" | "time" | "bot" | "top"]               *)
(*   [k |-> "var",  n |-> name]            (name: a TLA+ string)           *)
(*   [k |-> "list", el]    [k |-> "maybe", el]   [k |-> "map", key, val]   *)
(*   [k |-> "obj",  fs |-> << [n |-> fieldname, t |-> type], ... >>]       *)
(*         -- a SEQUENCE: field order is part of the representation,       *)
(*            ignored by TypeEq, used by positional storage of values      *)
(*   [k |-> "fun",  name, ps, ret]   [k |-> "tuple", ts]                   *)
(***************************************************************************)
EXTENDS YaeNum

TNum == [k |-> "num"]
TStr == [k |-> "str"]
TBool == [k |-> "bool"]
TTime == [k |-> "time"]
TBot == [k |-> "bot"]
TTop == [k |-> "top"]
TVar(n) == [k |-> "var", n |-> n]
TList(e) == [k |-> "list", el |-> e]
TMaybe(e) == [k |-> "maybe", el |-> e]
TMap(a, b) == [k |-> "map", key |-> a, val |-> b]
TObj(fs) == [k |-> "obj", fs |-> fs]
TFun(name, ps, r) == [k |-> "fun", name |-> name, ps |-> ps, ret |-> r]
TTuple(ts) == [k |-> "tuple", ts |-> ts]
Fld(n, t) == [n |-> n, t |-> t]

Prims == {"num", "str", "bool", "time"}
IsPrim(t) == t.k \in Prims
IsComp(t) == t.k \in {"tuple", "list", "map", "obj", "fun", "maybe"}
Keyable(t) == IsPrim(t) \/ t.k \in {"var", "bot"}            \* types.keyable

FieldIdx(fs, name) == IF \E i \in 1..Len(fs) : fs[i].n = name
                      THEN CHOOSE i \in 1..Len(fs) : fs[i].n = name ELSE 0
FieldNames(fs) == [i \in 1..Len(fs) |-> fs[i].n]

\* types.Equals -- structural, object fields by name
RECURSIVE TypeEq(_, _)
TypeEq(x, y) ==
  IF x.k # y.k THEN FALSE
  ELSE CASE x.k = "var" -> x.n = y.n
    [] x.k = "list" -> TypeEq(x.el, y.el)
    [] x.k = "maybe" -> TypeEq(x.el, y.el)
    [] x.k = "map" -> TypeEq(x.key, y.key) /\ TypeEq(x.val, y.val)
    [] x.k = "tuple" -> Len(x.ts) = Len(y.ts) /\ \A i \in 1..Len(x.ts) : TypeEq(x.ts[i], y.ts[i])
    [] x.k = "fun" -> Len(x.ps) = Len(y.ps) /\ (\A i \in 1..Len(x.ps) : TypeEq(x.ps[i], y.ps[i])) /\ TypeEq(x.ret, y.ret)
    [] x.k = "obj" -> Len(x.fs) = Len(y.fs) /\ \A i \in 1..Len(x.fs) :
                         LET j == FieldIdx(y.fs, x.fs[i].n) IN j # 0 /\ TypeEq(x.fs[i].t, y.fs[j].t)
    [] OTHER -> TRUE

\* the declarative reading of the property: identical up to a permutation of object fields
RECURSIVE CanonType(_)
CanonType(t) ==
  CASE t.k = "list" -> TList(CanonType(t.el))
    [] t.k = "maybe" -> TMaybe(CanonType(t.el))
    [] t.k = "map" -> TMap(CanonType(t.key), CanonType(t.val))
    [] t.k = "tuple" -> TTuple([i \in 1..Len(t.ts) |-> CanonType(t.ts[i])])
    [] t.k = "fun" -> [k |-> "fun", ps |-> [i \in 1..Len(t.ps) |-> CanonType(t.ps[i])], ret |-> CanonType(t.ret)]
    [] t.k = "obj" -> TObj(SortBy([i \in 1..Len(t.fs) |-> Fld(t.fs[i].n, CanonType(t.fs[i].t))],
                                   LAMBDA a, b : SeqLT(a.n, b.n)))
    [] OTHER -> t

\* types.applySubst
RECURSIVE ApplySubst(_, _)
ApplySubst(t, m) ==
  CASE t.k = "var" -> IF t.n \in DOMAIN m
                      THEN LET r == m[t.n] IN IF r.k = "var" /\ r.n = t.n THEN t ELSE ApplySubst(r, m)
                      ELSE t
    [] t.k = "list" -> TList(ApplySubst(t.el, m))
    [] t.k = "maybe" -> TMaybe(ApplySubst(t.el, m))
    [] t.k = "map" -> TMap(ApplySubst(t.key, m), ApplySubst(t.val, m))
    [] t.k = "tuple" -> TTuple([i \in 1..Len(t.ts) |-> ApplySubst(t.ts[i], m)])
    [] t.k = "fun" -> TFun(t.name, [i \in 1..Len(t.ps) |-> ApplySubst(t.ps[i], m)], ApplySubst(t.ret, m))
    [] t.k = "obj" -> TObj([i \in 1..Len(t.fs) |-> Fld(t.fs[i].n, ApplySubst(t.fs[i].t, m))])
    [] OTHER -> t

\* ~ types.freeFrom : the variable named n occurs in t
\* (freeFrom has no case for tuples: it is only ever called on component types)
RECURSIVE Occurs(_, _)
Occurs(t, n) ==
  CASE t.k = "var" -> t.n = n
    [] t.k = "list" -> Occurs(t.el, n)
    [] t.k = "maybe" -> Occurs(t.el, n)
    [] t.k = "map" -> Occurs(t.key, n) \/ Occurs(t.val, n)
    [] t.k = "tuple" -> \E i \in 1..Len(t.ts) : Occurs(t.ts[i], n)
    [] t.k = "fun" -> (\E i \in 1..Len(t.ps) : Occurs(t.ps[i], n)) \/ Occurs(t.ret, n)
    [] t.k = "obj" -> \E i \in 1..Len(t.fs) : Occurs(t.fs[i].t, n)
    [] OTHER -> FALSE

\* types.slotFree
RECURSIVE SlotFree(_)
SlotFree(t) ==
  CASE t.k = "var" -> FALSE
    [] t.k = "list" -> SlotFree(t.el)
    [] t.k = "maybe" -> SlotFree(t.el)
    [] t.k = "map" -> SlotFree(t.key) /\ SlotFree(t.val)
    [] t.k = "tuple" -> \A i \in 1..Len(t.ts) : SlotFree(t.ts[i])
    [] t.k = "fun" -> (\A i \in 1..Len(t.ps) : SlotFree(t.ps[i])) /\ SlotFree(t.ret)
    [] t.k = "obj" -> \A i \in 1..Len(t.fs) : SlotFree(t.fs[i].t)
    [] OTHER -> TRUE

RECURSIVE HasBotTop(_)
HasBotTop(u) ==
  CASE u.k \in {"bot", "top"} -> TRUE
    [] u.k = "list" -> HasBotTop(u.el)
    [] u.k = "maybe" -> HasBotTop(u.el)
    [] u.k = "map" -> HasBotTop(u.key) \/ HasBotTop(u.val)
    [] u.k = "tuple" -> \E i \in 1..Len(u.ts) : HasBotTop(u.ts[i])
    [] u.k = "obj" -> \E i \in 1..Len(u.fs) : HasBotTop(u.fs[i].t)
    [] u.k = "fun" -> (\E i \in 1..Len(u.ps) : HasBotTop(u.ps[i])) \/ HasBotTop(u.ret)
    [] OTHER -> FALSE

\* a substitution is cyclic when some variable reaches itself through its bindings
\* (ApplySubst would not terminate on it); x := x alone is not a cycle (applySubst stops there)
RECURSIVE VarsIn(_)
VarsIn(t) ==
  CASE t.k = "var" -> {t.n}
    [] t.k \in {"list", "maybe"} -> VarsIn(t.el)
    [] t.k = "map" -> VarsIn(t.key) \cup VarsIn(t.val)
    [] t.k = "tuple" -> UNION {VarsIn(t.ts[i]) : i \in 1..Len(t.ts)}
    [] t.k = "obj" -> UNION {VarsIn(t.fs[i].t) : i \in 1..Len(t.fs)}
    [] t.k = "fun" -> VarsIn(t.ret) \cup UNION {VarsIn(t.ps[i]) : i \in 1..Len(t.ps)}
    [] OTHER -> {}
DepsOf(m, n) == IF m[n].k = "var" /\ m[n].n = n THEN {} ELSE VarsIn(m[n]) \cap DOMAIN m
RECURSIVE ReachVars(_, _, _)
ReachVars(m, S, k) == IF k = 0 THEN S ELSE ReachVars(m, S \cup UNION {DepsOf(m, n) : n \in S}, k - 1)
CyclicSubst(m) == \E n \in DOMAIN m : n \in ReachVars(m, DepsOf(m, n), Cardinality(DOMAIN m))

Bind(m, n, t) == [x \in DOMAIN m \cup {n} |-> IF x = n THEN t ELSE m[x]]
EmptyM == [x \in {} |-> TNum]
UOk(t, m) == [ok |-> TRUE, t |-> t, m |-> m]
UFail(m) == [ok |-> FALSE, m |-> m]

(* types.unify -- the substitution m is threaded exactly as in the code: a  *)
(* failed attempt keeps the bindings made before the failure.              *)
RECURSIVE Unify(_, _, _), USeq(_, _, _, _, _), UParams(_, _, _, _, _)
USeq(xs, ys, i, acc, m) ==
  IF i > Len(xs) THEN [ok |-> TRUE, ts |-> acc, m |-> m]
  ELSE LET u == Unify(xs[i], ys[i], m) IN
       IF ~u.ok THEN [ok |-> FALSE, m |-> u.m] ELSE USeq(xs, ys, i + 1, Append(acc, u.t), u.m)
\* function parameters: the code applies the substitution to each pair first
UParams(xs, ys, i, acc, m) ==
  IF i > Len(xs) THEN [ok |-> TRUE, ts |-> acc, m |-> m]
  ELSE LET u == Unify(ApplySubst(xs[i], m), ApplySubst(ys[i], m), m) IN
       IF ~u.ok THEN [ok |-> FALSE, m |-> u.m] ELSE UParams(xs, ys, i + 1, Append(acc, u.t), u.m)

Unify(x, y, m) ==
  IF x.k = "var" /\ y.k = "var" /\ TypeEq(ApplySubst(x, m), ApplySubst(y, m)) THEN UOk(x, m)
  ELSE IF IsPrim(x) /\ IsPrim(y) /\ x.k = y.k THEN UOk(x, m)
  ELSE IF IsComp(x) /\ IsComp(y) /\ x.k = y.k THEN
    CASE x.k = "list" -> LET u == Unify(x.el, y.el, m) IN IF u.ok THEN UOk(TList(u.t), u.m) ELSE u
      [] x.k = "maybe" -> LET u == Unify(x.el, y.el, m) IN IF u.ok THEN UOk(TMaybe(u.t), u.m) ELSE u
      [] x.k = "map" -> LET u == Unify(x.key, y.key, m) IN IF ~u.ok THEN u ELSE
                        LET v == Unify(x.val, y.val, u.m) IN IF ~v.ok THEN v ELSE UOk(TMap(u.t, v.t), v.m)
      [] x.k = "tuple" -> IF Len(x.ts) # Len(y.ts) THEN UFail(m) ELSE
                          LET s == USeq(x.ts, y.ts, 1, <<>>, m) IN IF s.ok THEN UOk(TTuple(s.ts), s.m) ELSE UFail(s.m)
      [] x.k = "obj" ->
           IF Len(x.fs) # Len(y.fs) THEN UFail(m) ELSE
           \* fields of x in x's order, each matched by name in y; stops at the first missing name
           LET RECURSIVE OF(_, _, _)
               OF(i, acc, mm) ==
                 IF i > Len(x.fs) THEN [ok |-> TRUE, ts |-> acc, m |-> mm]
                 ELSE LET j == FieldIdx(y.fs, x.fs[i].n) IN
                      IF j = 0 THEN [ok |-> FALSE, m |-> mm]
                      ELSE LET u == Unify(x.fs[i].t, y.fs[j].t, mm) IN
                           IF ~u.ok THEN [ok |-> FALSE, m |-> u.m] ELSE OF(i + 1, Append(acc, u.t), u.m)
               s == OF(1, <<>>, m) IN
           IF s.ok THEN UOk(TObj([i \in 1..Len(x.fs) |-> Fld(x.fs[i].n, s.ts[i])]), s.m) ELSE UFail(s.m)
      [] x.k = "fun" -> IF Len(x.ps) # Len(y.ps) THEN UFail(m) ELSE
                        LET s == UParams(x.ps, y.ps, 1, <<>>, m) IN
                        IF ~s.ok THEN UFail(s.m) ELSE
                        LET r == Unify(x.ret, y.ret, s.m) IN IF ~r.ok THEN r ELSE UOk(TFun(x.name, s.ts, r.t), r.m)
  ELSE IF x.k = "var" THEN
    LET y1 == ApplySubst(y, m) IN
    IF Occurs(y1, x.n) THEN UFail(m)
    ELSE IF x.n \in DOMAIN m /\ ~TypeEq(m[x.n], y1) THEN UFail(m)
    ELSE UOk(y1, Bind(m, x.n, y1))
  ELSE IF y.k = "var" THEN
    LET x1 == ApplySubst(x, m) IN
    IF Occurs(x1, y.n) THEN UFail(m)
    ELSE IF y.n \in DOMAIN m /\ ~TypeEq(m[y.n], x1) THEN UFail(m)
    ELSE UOk(x1, Bind(m, y.n, x1))
  ELSE IF y.k = "bot" THEN UOk(x, m)
  ELSE IF x.k = "top" THEN UOk(x, m)
  ELSE UFail(m)

\* types.Map asserts keyable(key): a substitution that puts a composite type in key
\* position is refused (the assertion panics; Compile turns that into a rejection)
RECURSIVE WellKeyed(_)
WellKeyed(t) ==
  CASE t.k = "map" -> Keyable(t.key) /\ WellKeyed(t.val)
    [] t.k \in {"list", "maybe"} -> WellKeyed(t.el)
    [] t.k = "tuple" -> \A i \in 1..Len(t.ts) : WellKeyed(t.ts[i])
    [] t.k = "obj" -> \A i \in 1..Len(t.fs) : WellKeyed(t.fs[i].t)
    [] t.k = "fun" -> (\A i \in 1..Len(t.ps) : WellKeyed(t.ps[i])) /\ WellKeyed(t.ret)
    [] OTHER -> TRUE
UnifyK(x, y, m) ==
  LET u == Unify(x, y, m) IN
  \* the assertion sits in the constructor, so it sees the types the algorithm builds: the
  \* result and each binding as stored (not the bindings closed under the final substitution)
  IF u.ok /\ (~WellKeyed(u.t) \/ \E n \in DOMAIN u.m : ~WellKeyed(u.m[n])) THEN UFail(u.m) ELSE u

(* types.inferFun: instantiate f (a fun type) at the argument types.  The   *)
(* code first unifies a pseudo function (s1..sn) -> t with f, which only    *)
(* binds the fresh s_i, t to f's own parameter/result types, and then       *)
(* unifies the parameter tuple with the argument tuple under that map.      *)
InferFun(f, args) ==
  IF Len(f.ps) # Len(args) THEN [ok |-> FALSE]
  ELSE LET u == UnifyK(TTuple(f.ps), TTuple(args), EmptyM) IN
       IF ~u.ok THEN [ok |-> FALSE]
       ELSE LET r == ApplySubst(f.ret, u.m) IN
            IF ~SlotFree(r) THEN [ok |-> FALSE]
            ELSE [ok |-> TRUE, f |-> TFun(f.name, u.t.ts, r)]

(* ---------------- type text (types.String) ---------------- *)
RECURSIVE TypeText(_)
TypeText(t) ==
  CASE t.k = "num" -> N_num [] t.k = "str" -> N_str [] t.k = "bool" -> N_bool [] t.k = "time" -> N_time
    [] t.k = "bot" -> N_bot [] t.k = "top" -> N_top
    [] t.k = "list" -> N_list \o N_lbr \o TypeText(t.el) \o N_rbr
    [] t.k = "maybe" -> N_maybe \o N_lbr \o TypeText(t.el) \o N_rbr
    [] t.k = "map" -> N_map \o N_lbr \o TypeText(t.key) \o N_commasp \o TypeText(t.val) \o N_rbr
    [] t.k = "obj" -> Join([i \in 1..Len(t.fs) |-> t.fs[i].n \o N_colonsp \o TypeText(t.fs[i].t)], N_commasp, N_lbrace, N_rbrace)
    [] t.k = "tuple" -> Join([i \in 1..Len(t.ts) |-> TypeText(t.ts[i])], N_commasp, N_lpar, N_rpar)
    [] t.k = "fun" -> Join([i \in 1..Len(t.ps) |-> TypeText(t.ps[i])], N_commasp, N_func \o t.name \o N_lpar, N_rparsp \o TypeText(t.ret))
    [] OTHER -> <<63>>

(***************************************************************************)
(* Function tables.  An entry is                                           *)
(*   [id, name, ps, ret, lazy]      id: a tag naming the Go value          *)
(* in registration order.  Mono entries (slot-free signature) are looked   *)
(* up by exact parameter types; poly entries by name and arity, first      *)
(* registered first (types/env.go, types/overload.go).                     *)
(***************************************************************************)
Fn(id, name, ps, ret, lazy) == [id |-> id, name |-> name, ps |-> ps, ret |-> ret, lazy |-> lazy]
FnType(f) == TFun(f.name, f.ps, f.ret)
IsMonoFn(f) == SlotFree(FnType(f))

\* index of the mono entry for (name, args): the LAST registered exact match
\* (a later registration under the same key replaces an earlier one)
MonoIdx(funs, name, args) ==
  LET M == {i \in 1..Len(funs) : /\ IsMonoFn(funs[i]) /\ funs[i].name = name
                                 /\ Len(funs[i].ps) = Len(args)
                                 /\ \A j \in 1..Len(args) : TypeEq(funs[i].ps[j], args[j])}
  IN IF M = {} THEN 0 ELSE Max(M)
\* indices of poly entries with that name and arity, in registration order
PolyIdxs(funs, name, n) ==
  SelectSeq([i \in 1..Len(funs) |-> i],
            LAMBDA i : ~IsMonoFn(funs[i]) /\ funs[i].name = name /\ Len(funs[i].ps) = n)

\* types.resolveOverloadedFun: [ok, fi (index into funs), pi (0-based position
\* in the poly list, -1 for mono), f (instantiated fun type)]
ResolveFun(funs, name, args) ==
  LET mi == MonoIdx(funs, name, args) IN
  IF mi # 0 THEN [ok |-> TRUE, fi |-> mi, pi |-> -1, f |-> FnType(funs[mi])]
  ELSE LET ps == PolyIdxs(funs, name, Len(args))
           hits == SelectSeq(ps, LAMBDA i : InferFun(FnType(funs[i]), args).ok) IN
       IF hits = <<>> THEN [ok |-> FALSE]
       ELSE [ok |-> TRUE, fi |-> hits[1], pi |-> IndexOf(ps, hits[1]) - 1,
             f |-> InferFun(FnType(funs[hits[1]]), args).f]

(***************************************************************************)
(* types.Check over core trees.  Result                                    *)
(*    [ok |-> TRUE, ty, e]   e = the tree with the annotations the code    *)
(*                           attaches (literal types, call resolution)     *)
(*    [ok |-> FALSE, why]                                                  *)
(* env: sequence of [n |-> name, t |-> type]; funs: function table.        *)
(***************************************************************************)
EnvIdx(env, name) == IF \E i \in 1..Len(env) : env[i].n = name
                     THEN CHOOSE i \in 1..Len(env) : env[i].n = name ELSE 0
CkOk(t, e) == [ok |-> TRUE, ty |-> t, e |-> e]
\* the debug column of a term, carried through the annotation when the tree has one
DcOf(e) == IF "dc" \in DOMAIN e THEN e.dc ELSE -2
CkNo(why) == [ok |-> FALSE, why |-> why]

RECURSIVE Check(_, _, _), CheckSeq(_, _, _)
\* checks every element (the code checks all of them before any comparison of
\* types fails only for lists/maps pairwise in order -- rejection is rejection)
CheckSeq(es, env, funs) == [i \in 1..Len(es) |-> Check(es[i], env, funs)]

Check(e, env, funs) ==
  CASE e.k = "num" -> CkOk(TNum, e)
    [] e.k = "str" -> CkOk(TStr, e)
    [] e.k = "bool" -> CkOk(TBool, e)
    [] e.k = "time" -> CkOk(TTime, e)
    [] e.k = "list" ->
         IF e.els = <<>> THEN CkOk(TList(TBot), e @@ [ty |-> TList(TBot)])
         ELSE LET cs == CheckSeq(e.els, env, funs) IN
              IF \E i \in 1..Len(cs) : ~cs[i].ok THEN CkNo("list-elem")
              ELSE IF \E i \in 2..Len(cs) : ~TypeEq(cs[1].ty, cs[i].ty) THEN CkNo("list-hetero")
              ELSE LET ty == TList(cs[1].ty) IN
                   CkOk(ty, [k |-> "list", els |-> [i \in 1..Len(cs) |-> cs[i].e], ty |-> ty])
    [] e.k = "map" ->
         IF e.ps = <<>> THEN CkOk(TMap(TBot, TBot), e @@ [ty |-> TMap(TBot, TBot)])
         ELSE LET ks == CheckSeq([i \in 1..Len(e.ps) |-> e.ps[i].key], env, funs)
                  vs == CheckSeq([i \in 1..Len(e.ps) |-> e.ps[i].val], env, funs) IN
              IF (\E i \in 1..Len(ks) : ~ks[i].ok) \/ (\E i \in 1..Len(vs) : ~vs[i].ok) THEN CkNo("map-elem")
              ELSE IF ~IsPrim(ks[1].ty) THEN CkNo("map-key-kind")
              ELSE IF \E i \in 2..Len(ks) : ~TypeEq(ks[1].ty, ks[i].ty) \/ ~TypeEq(vs[1].ty, vs[i].ty) THEN CkNo("map-hetero")
              ELSE LET ty == TMap(ks[1].ty, vs[1].ty) IN
                   CkOk(ty, [k |-> "map", ps |-> [i \in 1..Len(ks) |-> [key |-> ks[i].e, val |-> vs[i].e]], ty |-> ty])
    [] e.k = "obj" ->
         LET cs == CheckSeq([i \in 1..Len(e.fs) |-> e.fs[i].v], env, funs) IN
         IF \E i \in 1..Len(cs) : ~cs[i].ok THEN CkNo("obj-field")
         ELSE IF ~NoDup([i \in 1..Len(e.fs) |-> e.fs[i].n]) THEN CkNo("obj-dup")
         ELSE LET ty == TObj([i \in 1..Len(cs) |-> Fld(e.fs[i].n, cs[i].ty)]) IN
              CkOk(ty, [k |-> "obj", fs |-> [i \in 1..Len(cs) |-> [n |-> e.fs[i].n, v |-> cs[i].e]], ty |-> ty])
    [] e.k = "id" ->
         IF e.n \in ReservedWords THEN CkNo("reserved")
         ELSE LET i == EnvIdx(env, e.n) IN IF i = 0 THEN CkNo("undefined") ELSE CkOk(env[i].t, e)
    [] e.k = "call" ->
         LET as == CheckSeq(e.args, env, funs) IN
         IF \E i \in 1..Len(as) : ~as[i].ok THEN CkNo("arg")
         ELSE LET ats == [i \in 1..Len(as) |-> as[i].ty]
                  aes == [i \in 1..Len(as) |-> as[i].e] IN
              IF e.f.k = "id" THEN
                LET r == ResolveFun(funs, e.f.n, ats) IN
                IF ~r.ok THEN CkNo("no-overload")
                ELSE IF \E i \in 1..Len(ats) : ~TypeEq(r.f.ps[i], ats[i]) THEN CkNo("param-mismatch")
                ELSE CkOk(r.f.ret, [k |-> "call", f |-> e.f, args |-> aes, dc |-> DcOf(e),
                                     res |-> [kind |-> "static", fi |-> r.fi, pi |-> r.pi], fty |-> r.f])
              ELSE
                LET c == Check(e.f, env, funs) IN
                IF ~c.ok THEN CkNo("callee")
                ELSE IF c.ty.k # "fun" THEN CkNo("not-callable")
                ELSE LET r == InferFun(c.ty, ats) IN
                     IF ~r.ok THEN CkNo("dyn-mismatch")
                     ELSE IF \E i \in 1..Len(ats) : ~TypeEq(r.f.ps[i], ats[i]) THEN CkNo("param-mismatch")
                     ELSE CkOk(r.f.ret, [k |-> "call", f |-> c.e, args |-> aes, dc |-> DcOf(e), res |-> [kind |-> "dyn"], fty |-> r.f])
    [] e.k = "sub" ->
         LET x == Check(e.x, env, funs) IN
         IF ~x.ok THEN x
         ELSE IF x.ty.k \notin {"list", "map"} THEN CkNo("not-indexable")
         ELSE LET i == Check(e.i, env, funs) IN
              IF ~i.ok THEN i
              ELSE IF x.ty.k = "list" THEN
                     (IF ~TypeEq(i.ty, TNum) THEN CkNo("index-type")
                      ELSE CkOk(x.ty.el, [k |-> "sub", x |-> x.e, i |-> i.e, xk |-> "list", dc |-> DcOf(e)]))
              ELSE (IF ~TypeEq(i.ty, x.ty.key) THEN CkNo("key-type")
                    ELSE CkOk(x.ty.val, [k |-> "sub", x |-> x.e, i |-> i.e, xk |-> "map", dc |-> DcOf(e)]))
    [] e.k = "mem" ->
         LET x == Check(e.x, env, funs) IN
         IF ~x.ok THEN x
         ELSE IF x.ty.k # "obj" THEN CkNo("not-object")
         ELSE LET j == FieldIdx(x.ty.fs, e.n) IN
              IF j = 0 THEN CkNo("no-field") ELSE CkOk(x.ty.fs[j].t, [k |-> "mem", x |-> x.e, n |-> e.n, dc |-> DcOf(e)])
    [] OTHER -> CkNo("not-core")

=============================================================================
