---------------------------- MODULE Trace_Desugar ----------------------------
(***************************************************************************)
(* Mode C for C10 (structural half): the real desugarer's output on the    *)
(* real parser's tree, recorded with all positions, against Desugar; the   *)
(* original tree projected again after desugaring (must be untouched); the *)
(* same tree desugared a second time; the result desugared again.          *)
(***************************************************************************)
EXTENDS YaeDesugar, YaeIO

Obs == ObsLoaded
N == Len(Obs)
VARIABLE st

Judge(rec) ==
  LET o == rec.obs
      died == "died" \in DOMAIN o IN
  IF died THEN {"total"}
  ELSE IF ~o.parsed THEN
         \* (what the specification's front end accepts, the code's front end accepts: parentheses are pure notation)
         (LET lx == Lex(rec.ops, rec.src)
              pr == IF lx.ok THEN Parse(rec.ops, lx.toks) ELSE [ok |-> FALSE, why |-> "lex"] IN
          IF pr.ok THEN {"parsed"} ELSE {})
  ELSE (IF o.class # "ok" THEN {"total"} ELSE
        \* the tree that was desugared is the tree of THIS source (the specification's own lexer and parser)
        (LET lx == Lex(rec.ops, rec.src)
             pr == IF lx.ok THEN Parse(rec.ops, lx.toks) ELSE [ok |-> FALSE, why |-> "lex"] IN
         IF pr.ok /\ StripPos(o.before) # StripPos(pr.node) THEN {"before"} ELSE {}) \cup
        (IF ~IsCore(o.after) THEN {"core"} ELSE {})
        \cup (IF o.after # Desugar(o.before) THEN {"after"} ELSE {})
        \cup (IF o.twice # o.after THEN {"idempotent"} ELSE {})
        \cup (IF o.before2 # o.before THEN {"untouched"} ELSE {})
        \cup (IF o.after2 # o.after THEN {"again"} ELSE {})
        \* one parsed tree compiled for several environments behaves each time like a fresh parse (recorded differences)
        \cup (IF "reuse" \in DOMAIN o /\ o.reuse # <<>> THEN {"reuse"} ELSE {})
        \cup (IF IsCore(o.after) /\ ~(LET ls == Leaves(o.after) IN \A i \in 1..(Len(ls) - 1) : ls[i] < ls[i + 1]) THEN {"order"} ELSE {}))

Init == st \in {[c |-> c, l |-> ChunkLo(c, N)] : c \in 1..NChunks}
Next == /\ st.l <= ChunkHi(st.c, N)
        /\ EmitVerdict(Obs[st.l].id, Judge(Obs[st.l]), IF "died" \in DOMAIN Obs[st.l].obs \/ Obs[st.l].obs.parsed THEN "" ELSE "unparsed")
        /\ st' = [st EXCEPT !.l = @ + 1]
=============================================================================
