---------------------------- MODULE Gen_Conv ----------------------------
(***************************************************************************)
(* C15 / C16 (host data), Mode A + case generation: descriptors of Go      *)
(* values (scalars under pointers, slices, arrays, maps, structs with      *)
(* tags, interfaces; nil in every nil-able position) and pairs of values   *)
(* of one Go struct type.  The properties are invariants of the            *)
(* specification's ConvVal / TypeOfGo over this universe.                  *)
(***************************************************************************)
EXTENDS YaeConv, YaeIO

VARIABLE st
GT(g) == [g |-> g]
GPtr(t) == [g |-> "ptr", to |-> t]
GSliceT(t) == [g |-> "slice", el |-> t]
GArrT(t, n) == [g |-> "array", el |-> t, n |-> n]
GMapT(k, e) == [g |-> "map", key |-> k, el |-> e]
GStructT(fs) == [g |-> "struct", fs |-> fs]
GNum(g, n) == [t |-> GT(g), n |-> n]
GBool(b) == [t |-> GT("bool"), b |-> b]
GStr(s) == [t |-> GT("string"), s |-> s]
GTime(sec, zone) == [t |-> GT("time"), sec |-> sec, zone |-> zone]
GPtrTo(v) == [t |-> GPtr(v.t), nil |-> FALSE, to |-> v]
GNilPtr(t) == [t |-> GPtr(t), nil |-> TRUE]
GSliceOf(elt, els) == [t |-> GSliceT(elt), nil |-> FALSE, els |-> els]
GNilSlice(elt) == [t |-> GSliceT(elt), nil |-> TRUE, els |-> <<>>]
GArrOf(elt, els) == [t |-> GArrT(elt, Len(els)), els |-> els]
GMapOf(kt, et, ents) == [t |-> GMapT(kt, et), nil |-> FALSE, ents |-> ents]
GNilMap(kt, et) == [t |-> GMapT(kt, et), nil |-> TRUE, ents |-> <<>>]
GEnt(k, v) == [key |-> k, val |-> v]
\* fields: << [name, tag, v], ... >>
GStructOf(fs) == [t |-> GStructT([i \in 1..Len(fs) |-> [name |-> fs[i].name, tag |-> fs[i].tag, t |-> fs[i].v.t]]),
                  fs |-> [i \in 1..Len(fs) |-> fs[i].v]]
FV(name, tag, v) == [name |-> name, tag |-> tag, v |-> v]
GIface(v) == [t |-> GT("iface"), nil |-> FALSE, dyn |-> v]
GNilIface == [t |-> GT("iface"), nil |-> TRUE]
GChan == [t |-> GT("chan")]
GFunc == [t |-> GT("func")]

Map1(L, Mk(_)) == [i \in 1..Len(L) |-> Mk(L[i])]
Prod2(L1, L2, Mk(_, _)) ==
  [k \in 1..(Len(L1) * Len(L2)) |-> Mk(L1[((k - 1) \div Len(L2)) + 1], L2[((k - 1) % Len(L2)) + 1])]

SA == <<65>>  SB == <<66>>      \* Go field names A, B
Tags == <<<<>>, <<97>>, <<97, 44, 109, 97, 121, 98, 101>>, <<44, 109, 97, 121, 98, 101>>, <<32, 97, 32, 44, 32, 77, 65, 89, 66, 69, 32>>,
          <<97, 44, 109, 97, 121, 98, 101, 120>>,     \* "", "a", "a,maybe", ",maybe", " a , MAYBE ", "a,maybex"
          <<97, 44, 109, 97, 121, 98, 101, 44, 111, 109, 105, 116, 101, 109, 112, 116, 121>>, <<97, 44, 111, 109, 105, 116, 101, 109, 112, 116, 121, 44, 109, 97, 121, 98, 101>>, <<97, 44, 44, 109, 97, 121, 98, 101>>>>     \* "a,maybe,omitempty"  "a,omitempty,maybe"  "a,,maybe"
Scalars == <<GNum("int", NInt(1)), GNum("int8", NInt(-2)), GNum("uint16", NInt(3)), GNum("float64", Fin(5, 1, 0)), GNum("float32", Fin(1, 1, 0)),
             GNum("int64", NInt(1073741823)), GNum("uint8", NInt(255)), GBool(TRUE), GStr(<<97>>), GStr(<<233>>), GStr(<<>>),
             GTime(86400, 0), GTime(90000, 0)>>
Few == <<GNum("int", NInt(1)), GNum("float64", Fin(5, 1, 0)), GStr(<<97>>), GBool(FALSE), GTime(86400, 0)>>
L1(s) == <<GPtrTo(s), GPtrTo(GPtrTo(s)), GNilPtr(s.t), GPtrTo(GNilPtr(s.t)),
           GSliceOf(s.t, <<s, s>>), GSliceOf(s.t, <<>>), GNilSlice(s.t), GArrOf(s.t, <<s>>), GArrOf(s.t, <<>>),
           GMapOf(GT("string"), s.t, <<GEnt(GStr(<<107>>), s)>>), GMapOf(GT("int"), s.t, <<GEnt(GNum("int", NInt(1)), s), GEnt(GNum("int", NInt(2)), s)>>),
           GMapOf(GT("string"), s.t, <<>>), GNilMap(GT("string"), s.t), GMapOf(s.t, GT("int"), <<GEnt(s, GNum("int", NInt(1)))>>),
           GIface(s), GIface(GPtrTo(s)), GPtrTo(GIface(s)),
           GSliceOf(GT("iface"), <<GIface(s), GIface(s)>>), GSliceOf(GT("iface"), <<GIface(s), GIface(GStr(<<122>>))>>),
           GSliceOf(GT("iface"), <<GIface(s), GNilIface>>), GSliceOf(GT("iface"), <<>>),
           GMapOf(GT("string"), GT("iface"), <<GEnt(GStr(<<97>>), GIface(s)), GEnt(GStr(<<98>>), GIface(GBool(TRUE)))>>),
           GStructOf(<<FV(SA, <<>>, s)>>), GStructOf(<<FV(SA, <<>>, s), FV(SB, <<98>>, GStr(<<120>>))>>),
           GStructOf(<<FV(SA, <<>>, GPtrTo(s))>>), GStructOf(<<FV(SA, <<>>, GNilPtr(s.t))>>),
           GStructOf(<<FV(SA, <<97, 44, 109, 97, 121, 98, 101>>, GNilPtr(s.t))>>), GStructOf(<<FV(SA, <<97, 44, 109, 97, 121, 98, 101>>, GPtrTo(s))>>),
           GStructOf(<<FV(SA, <<97, 44, 109, 97, 121, 98, 101>>, s)>>),
           GStructOf(<<FV(SA, <<>>, GNilSlice(s.t))>>), GStructOf(<<FV(SA, <<>>, GNilMap(GT("string"), s.t))>>),
           GStructOf(<<FV(SA, <<>>, GNilIface)>>), GStructOf(<<FV(SA, <<>>, GIface(s))>>),
           GStructOf(<<FV(SA, <<120>>, s), FV(SB, <<120>>, s)>>), GStructOf(<<FV(SA, <<>>, GChan)>>)>>
L2(x) == <<GSliceOf(x.t, <<x, x>>), GPtrTo(x), GStructOf(<<FV(SA, <<>>, x)>>), GMapOf(GT("string"), x.t, <<GEnt(GStr(<<107>>), x)>>),
           GStructOf(<<FV(SA, <<111>>, x), FV(SB, <<110>>, GNum("int", NInt(7)))>>), GIface(x)>>
RECURSIVE Nest(_, _)
Nest(x, n) == IF n = 0 THEN x ELSE Nest(GSliceOf(x.t, <<x>>), n - 1)
Special == <<GNilIface, GChan, GFunc, GNilPtr(GT("int")), GStructOf(<<>>), Nest(GNum("int", NInt(1)), 99), Nest(GNum("int", NInt(1)), 100),
             Nest(GNum("int", NInt(1)), 101), Nest(GNum("int", NInt(1)), 102),
             GSliceOf(GSliceT(GT("int")), <<GSliceOf(GT("int"), <<GNum("int", NInt(1))>>), GSliceOf(GT("int"), <<>>), GNilSlice(GT("int"))>>),
             GStructOf(<<FV(SA, <<>>, GTime(86400, 3600)), FV(SB, <<>>, GTime(86400, 0))>>),
             GMapOf(GT("time"), GT("int"), <<GEnt(GTime(86400, 0), GNum("int", NInt(1))), GEnt(GTime(86400, 3600), GNum("int", NInt(2)))>>)>>
     \* containers whose elements differ in nil-ness: a nil-able part must never sit in a slot declared non-optional
     \o (LET U(p) == GStructOf(<<FV(SA, <<>>, p), FV(SB, <<>>, GStr(<<117>>))>>)
              some == GPtrTo(GNum("int", NInt(30)))
              none == GNilPtr(GT("int")) IN
         <<GStructOf(<<FV(SA, <<117, 115>>, GSliceOf(U(some).t, <<U(some), U(none)>>))>>),
           GStructOf(<<FV(SA, <<117, 115>>, GSliceOf(U(some).t, <<U(none), U(some)>>))>>),
           GStructOf(<<FV(SA, <<117, 115>>, GSliceOf(U(some).t, <<U(some), U(some)>>))>>),
           GStructOf(<<FV(SA, <<117, 115>>, GSliceOf(U(some).t, <<U(none), U(none)>>))>>),
           GSliceOf(GPtr(GT("int")), <<some, none>>), GSliceOf(GPtr(GT("int")), <<none, some>>),
           GMapOf(GT("string"), U(some).t, <<GEnt(GStr(<<97>>), U(some)), GEnt(GStr(<<98>>), U(none))>>),
           GArrOf(U(some).t, <<U(some), U(none), U(some)>>),
           GSliceOf(GSliceT(GT("int")), <<GSliceOf(GT("int"), <<GNum("int", NInt(1))>>), GNilSlice(GT("int"))>>)>>)
     \* containers of a concrete element type whose elements still convert to different types (interface parts inside)
     \o (LET W(d) == GStructOf(<<FV(SA, <<118>>, d)>>)
              i1 == GIface(GNum("int", NInt(1)))
              is == GIface(GStr(<<111, 110, 101>>))
              IS(els) == GSliceOf(GT("iface"), els) IN
         <<GSliceOf(W(i1).t, <<W(i1), W(is)>>), GSliceOf(W(i1).t, <<W(i1), W(i1)>>), GSliceOf(W(i1).t, <<W(is), W(i1), W(is)>>),
           GArrOf(W(i1).t, <<W(i1), W(is)>>), GSliceOf(W(i1).t, <<W(i1), W(GNilIface)>>),
           GSliceOf(GSliceT(GT("iface")), <<IS(<<i1>>), IS(<<is>>)>>), GSliceOf(GSliceT(GT("iface")), <<IS(<<i1>>), IS(<<i1, i1>>)>>),
           GSliceOf(GSliceT(GT("iface")), <<IS(<<i1>>), IS(<<>>)>>),
           GMapOf(GT("string"), W(i1).t, <<GEnt(GStr(<<97>>), W(i1)), GEnt(GStr(<<98>>), W(is))>>),
           GStructOf(<<FV(SA, <<114>>, GSliceOf(W(i1).t, <<W(i1), W(is)>>))>>)>>)
     \o Map1(Tags, LAMBDA tg : GStructOf(<<FV(SA, tg, GNum("int", NInt(1)))>>))
     \o Map1(Tags, LAMBDA tg : GStructOf(<<FV(SA, tg, GNilPtr(GT("int")))>>))
Singles == Scalars \o Concat(Map1(Scalars, L1)) \o Concat(Map1(Concat(Map1(Few, L1)), L2)) \o Special

PW(d) == GStructOf(<<FV(SA, <<118>>, d)>>)
PU(p) == GStructOf(<<FV(SA, <<>>, p), FV(SB, <<>>, GStr(<<117>>))>>)
PSome == GPtrTo(GNum("int", NInt(30)))
PNone == GNilPtr(GT("int"))
PI1 == GIface(GNum("int", NInt(1)))
PIS == GIface(GStr(<<111, 110, 101>>))
\* pairs of values of ONE Go struct type: two fields, every nil / non-nil / tagged combination
PairField(tag, s) == <<FV(SA, tag, GPtrTo(s)), FV(SA, tag, GNilPtr(s.t))>>
PairTags == <<<<120>>, <<120, 44, 109, 97, 121, 98, 101>>, <<120, 44, 109, 97, 121, 98, 101, 44, 111, 109, 105, 116, 101, 109, 112, 116, 121>>>>         \* "x"   "x,maybe"   "x,maybe,omitempty"
PairStructs ==
  Concat(Map1(PairTags, LAMBDA tg : Concat(Map1(<<Few[1], Few[3]>>, LAMBDA s :
    LET fa == PairField(tg, s) IN
    Prod2(<<1, 2>>, <<1, 2>>, LAMBDA i, j : [a |-> GStructOf(<<fa[i], FV(SB, <<110>>, GNum("int", NInt(3)))>>),
                                             b |-> GStructOf(<<fa[j], FV(SB, <<110>>, GNum("int", NInt(4)))>>)])))))
  \o <<[a |-> GStructOf(<<FV(SA, <<120>>, GSliceOf(GT("int"), <<GNum("int", NInt(1))>>))>>), b |-> GStructOf(<<FV(SA, <<120>>, GSliceOf(GT("int"), <<>>))>>)],
       [a |-> GStructOf(<<FV(SA, <<120>>, GSliceOf(GT("int"), <<>>))>>), b |-> GStructOf(<<FV(SA, <<120>>, GNilSlice(GT("int")))>>)],
       [a |-> GStructOf(<<FV(SA, <<120>>, GMapOf(GT("string"), GT("int"), <<GEnt(GStr(<<107>>), GNum("int", NInt(1)))>>))>>),
        b |-> GStructOf(<<FV(SA, <<120>>, GMapOf(GT("string"), GT("int"), <<>>))>>)],
       [a |-> GStructOf(<<FV(SA, <<120>>, GIface(GNum("int", NInt(1))))>>), b |-> GStructOf(<<FV(SA, <<120>>, GIface(GStr(<<97>>)))>>)],
       [a |-> GStructOf(<<FV(SA, <<120>>, GSliceOf(GPtr(GT("int")), <<GPtrTo(GNum("int", NInt(1)))>>))>>),
        b |-> GStructOf(<<FV(SA, <<120>>, GSliceOf(GPtr(GT("int")), <<GPtrTo(GNum("int", NInt(2))), GPtrTo(GNum("int", NInt(3)))>>))>>)],
       [a |-> GStructOf(<<FV(SA, <<120>>, GTime(86400, 0))>>), b |-> GStructOf(<<FV(SA, <<120>>, GTime(86400, 3600))>>)],
       \* one Go type whose converted type depends on a value held by a nested by-value struct / array / pointer
       [a |-> GStructOf(<<FV(SA, <<120>>, PW(PI1)), FV(SB, <<110>>, GNum("int", NInt(1)))>>),
        b |-> GStructOf(<<FV(SA, <<120>>, PW(PIS)), FV(SB, <<110>>, GNum("int", NInt(2)))>>)],
       [a |-> GStructOf(<<FV(SA, <<120>>, PW(PIS))>>), b |-> GStructOf(<<FV(SA, <<120>>, PW(PI1))>>)],
       [a |-> GStructOf(<<FV(SA, <<120>>, GArrOf(GT("iface"), <<PI1>>))>>), b |-> GStructOf(<<FV(SA, <<120>>, GArrOf(GT("iface"), <<PIS>>))>>)],
       [a |-> GStructOf(<<FV(SA, <<120>>, PW(GPtrTo(GNum("int", NInt(5)))))>>), b |-> GStructOf(<<FV(SA, <<120>>, PW(GNilPtr(GT("int"))))>>)],
       [a |-> GStructOf(<<FV(SA, <<120>>, GSliceOf(PW(PI1).t, <<PW(PI1)>>))>>), b |-> GStructOf(<<FV(SA, <<120>>, GSliceOf(PW(PI1).t, <<PW(PIS)>>))>>)],
       \* a collection of records of one concrete Go type whose later elements differ in the nil-ness of a field
       [a |-> GStructOf(<<FV(SA, <<120>>, GSliceOf(PU(PSome).t, <<PU(PSome), PU(PSome)>>))>>),
        b |-> GStructOf(<<FV(SA, <<120>>, GSliceOf(PU(PSome).t, <<PU(PSome), PU(PNone)>>))>>)],
       [a |-> GStructOf(<<FV(SA, <<120>>, GSliceOf(PU(PSome).t, <<PU(PSome)>>))>>),
        b |-> GStructOf(<<FV(SA, <<120>>, GSliceOf(PU(PSome).t, <<PU(PSome), PU(PSome), PU(PNone)>>))>>)],
       [a |-> GStructOf(<<FV(SA, <<120>>, GArrOf(PU(PSome).t, <<PU(PSome), PU(PSome)>>))>>),
        b |-> GStructOf(<<FV(SA, <<120>>, GArrOf(PU(PSome).t, <<PU(PSome), PU(PNone)>>))>>)],
       [a |-> GStructOf(<<FV(SA, <<120>>, GSliceOf(GSliceT(GT("int")), <<GSliceOf(GT("int"), <<GNum("int", NInt(1))>>)>>))>>),
        b |-> GStructOf(<<FV(SA, <<120>>, GSliceOf(GSliceT(GT("int")), <<GSliceOf(GT("int"), <<GNum("int", NInt(1))>>), GNilSlice(GT("int"))>>))>>)]>>

\* passing a value as interface{} makes a top-level interface wrapper transparent
RECURSIVE TopUnwrap(_)
TopUnwrap(g) == IF g.t.g = "iface" /\ ~g.nil THEN TopUnwrap(g.dyn) ELSE g
Universe == IF P_MODE = "pairs" THEN PairStructs ELSE Map1(Singles, LAMBDA g : [a |-> TopUnwrap(g)])
NU == Len(Universe)
Init == st \in {[seed |-> i] : i \in 1..32}
Next == /\ "seed" \in DOMAIN st
        /\ \E j \in (((st.seed - 1) * NU) \div 32 + 1)..((st.seed * NU) \div 32) :
             st' = [c |-> Universe[j], va |-> ConvVal(Universe[j].a, 0), ta |-> TypeOfGo(Universe[j].a)]
IsCase == "c" \in DOMAIN st
Emit == IsCase => EmitCase([fam |-> "conv"] @@ st.c)

(* ---- C15 on the specification ---- *)
Judged(c) == c.ok /\ c.v.k # "ood"
\* the converted value is well formed and has the type reported for the same Go value
ValTypeAgree == IsCase /\ Judged(st.va) => st.ta.ok /\ HasType(st.va.v, st.ta.t)
\* nil at top level, unsupported kinds, mixed interface slices: an error, not a value
ErrorsReported == IsCase /\ (IsNilGV(st.c.a) \/ st.c.a.t.g \in {"chan", "func"}) => ~st.va.ok
\* for one static type without interface parts whose nil-able parts are non-nil or declared optional
\* the type does not depend on the value
TypeStable ==
  IsCase /\ "b" \in DOMAIN st.c =>
    LET vb == ConvVal(st.c.b, 0) IN
    (st.c.a.t = st.c.b.t /\ ~HasIface(st.c.a.t) /\ NilablesCovered(st.c.a, FALSE) /\ NilablesCovered(st.c.b, FALSE)
       /\ Judged(st.va) /\ Judged(vb)) => TypeEq(TypeOfVal(st.va.v), TypeOfVal(vb.v))
=============================================================================
