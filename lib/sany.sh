#!/bin/bash
# usage: sany.sh Module.tla  (run in spec dir) -- prints only problems
java -cp /opt/veriftools/tla/tla2tools.jar:/opt/veriftools/tla/CommunityModules-deps.jar tla2sany.SANY "$@" 2>&1 | grep -v "^Parsing file\|^Semantic processing\|^Linting of\|^\*\*\*\*\*\* SANY2\|^$"
