---------------------------- MODULE YaeConc ----------------------------
(***************************************************************************)
(* C14: the shared-memory skeleton of yae under concurrent use.  A process  *)
(* is a goroutine running Compile and / or invocations; a step is ONE      *)
(* access to a shared location or one synchronisation operation, in the    *)
(* order the code performs them:                                           *)
(*                                                                         *)
(*   Expr.Parse        makeSureInit (read e.init; the first compilation    *)
(*                     appends the built-in operators to e.ops, registers  *)
(*                     the built-in functions in e.typeCheck / e.runtime,  *)
(*                     sets e.init), lexer.NewLexer (oper.Sort of the      *)
(*                     package-level builtInOpers and of e.ops, IN PLACE), *)
(*                     parser.NewParser (oper.Sort(e.ops) in place again)  *)
(*   Expr.CompileExpr  makeSureInit, types.Check: one draw from the        *)
(*                     process-wide type-variable counter (types.TyVar)    *)
(*                     per fresh variable, reads of e.typeCheck, the back  *)
(*                     end reads e.runtime                                 *)
(*   Callable          env.Inherit(e.runtime) (a copy: read), the compiled *)
(*                     code is read, all evaluation state is per call;     *)
(*                     strtotime goes through the time-zone cache (a map   *)
(*                     guarded by a mutex: lock, read, unlock, on a miss   *)
(*                     parse outside the lock, lock, write, unlock)        *)
(*                                                                         *)
(* sort.SliceStable performs no swap on a slice that is already in order,  *)
(* so Sort is a READ of a sorted slice and a WRITE of an unsorted one.     *)
(*                                                                         *)
(* P_TYVAR selects how a draw is performed: "atomic" (one read-modify-     *)
(* write: the code as repaired) or "racy" (n++ then read n: load, store,   *)
(* load -- the code as found, kept as a negative control).                 *)
(*                                                                         *)
(* A data race is a state in which two processes' next steps access the    *)
(* same location, at least one writes, they are not both atomic, and they  *)
(* hold no common lock.  (For programs synchronised by locks only this is  *)
(* exactly "two conflicting accesses adjacent in some execution".)         *)
(***************************************************************************)
EXTENDS YaeBase, FiniteSets

(* ---------------------------------------------------------------- steps *)
Rd(l) == [op |-> "rd", loc |-> l]
Wr(l) == [op |-> "wr", loc |-> l]
LInit(e) == <<"init", e>>
LOps(e) == <<"ops", e>>
LFuns(e) == <<"funs", e>>         \* e.typeCheck + e.runtime (written by RegisterFun only)
LCode(c) == <<"code", c>>
LCounter == <<"counter", 0>>
LLexOps == <<"lexops", 0>>        \* parser/lexer/factory.go builtInOpers
LBuiltin == <<"builtin", 0>>      \* oper.ops / fun.BuiltIn(): package-level tables, copied from
LTz == <<"tz", 0>>

\* the operator table as the sequence of the lengths of the operator texts; Sort orders by length, longest first, stably
BuiltinOps == <<1, 1, 2, 1, 2, 2, 1>>
Sorted(s) == \A i \in 1..(Len(s) - 1) : s[i] >= s[i + 1]
SortDesc(s) == LET mx == FoldLeft(LAMBDA m, x : MaxI(m, x), 0, s) IN
               Concat([k \in 1..mx |-> SelectSeq(s, LAMBDA x : x = mx + 1 - k)])

\* makeSureInit: read the flag; the three writes happen only in a process that saw it unset
InitSteps(e) == <<[op |-> "rd_init", e |-> e], [op |-> "wr_ops", e |-> e], [op |-> "wr_funs", e |-> e], [op |-> "wr_init", e |-> e]>>
DrawSteps(tyvar) == IF tyvar = "atomic" THEN <<[op |-> "draw"]>> ELSE <<[op |-> "draw_ld"], [op |-> "draw_st"], [op |-> "draw_rd"]>>
CompileSteps(e, c, draws, tyvar) ==
  InitSteps(e)
    \o <<Rd(LLexOps), [op |-> "sort", e |-> e], [op |-> "use_ops", e |-> e]>>      \* lexer.NewLexer(e.ops)
    \o <<[op |-> "sort", e |-> e], [op |-> "use_ops", e |-> e]>>                  \* parser.NewParser(e.ops)
    \o InitSteps(e)                                                               \* CompileExpr
    \o Concat([i \in 1..draws |-> <<Rd(LFuns(e))>> \o DrawSteps(tyvar)])          \* types.Check
    \o <<Rd(LFuns(e)), [op |-> "publish", c |-> c]>>                              \* back end; the callable is returned
InvokeSteps(e, c, tz) ==
  <<Rd(LFuns(e)), Rd(LCode(c))>>
    \o (IF tz THEN <<[op |-> "lock"], [op |-> "tz_rd"], [op |-> "unlock"], [op |-> "tz_parse"],
                     [op |-> "lock"], [op |-> "tz_wr"], [op |-> "unlock"]>> ELSE <<>>)
    \o <<[op |-> "done_invoke"]>>

(* ---------------------------------------------------------------- state *)
VARIABLES pc,        \* pc[p]: index of p's next step
          prog,      \* prog[p]: p's steps (fixed by the scenario)
          counter,   \* the type-variable counter
          tmp,       \* tmp[p]: the value a racy draw loaded
          names,     \* names[p]: the counter values p drew, in order
          ops,       \* ops[e]: the engine's operator table
          inited,    \* inited[e]
          need,      \* need[p]: p saw e.init unset and is initialising
          seen,      \* seen[p]: the operator tables p built its lexer / parser from
          lock,      \* holder of the time-zone mutex, 0 = free
          tz,        \* is the zone in the cache
          tzhit      \* tzhit[p]: p found it there
cvars == <<pc, prog, counter, tmp, names, ops, inited, need, seen, lock, tz, tzhit>>

Procs == DOMAIN prog
Done(p) == pc[p] > Len(prog[p])
Step(p) == prog[p][pc[p]]

\* the shared access the next step of p performs: [loc, kind] with kind r / w / a, or none
Access(p) ==
  IF Done(p) THEN [kind |-> "none"]
  ELSE LET s == Step(p) IN
    CASE s.op = "rd" -> [loc |-> s.loc, kind |-> "r"]
      [] s.op = "wr" -> [loc |-> s.loc, kind |-> "w"]
      [] s.op = "rd_init" -> [loc |-> LInit(s.e), kind |-> "r"]
      [] s.op = "wr_ops" -> IF need[p] THEN [loc |-> LOps(s.e), kind |-> "w"] ELSE [kind |-> "none"]
      [] s.op = "wr_funs" -> IF need[p] THEN [loc |-> LFuns(s.e), kind |-> "w"] ELSE [kind |-> "none"]
      [] s.op = "wr_init" -> IF need[p] THEN [loc |-> LInit(s.e), kind |-> "w"] ELSE [kind |-> "none"]
      [] s.op = "sort" -> [loc |-> LOps(s.e), kind |-> IF Sorted(ops[s.e]) THEN "r" ELSE "w"]
      [] s.op = "use_ops" -> [loc |-> LOps(s.e), kind |-> "r"]
      [] s.op = "draw" -> [loc |-> LCounter, kind |-> "a"]
      [] s.op \in {"draw_ld", "draw_rd"} -> [loc |-> LCounter, kind |-> "r"]
      [] s.op = "draw_st" -> [loc |-> LCounter, kind |-> "w"]
      [] s.op = "publish" -> [loc |-> LCode(s.c), kind |-> "w"]
      [] s.op = "tz_rd" -> [loc |-> LTz, kind |-> "r"]
      [] s.op = "tz_wr" -> IF tzhit[p] THEN [kind |-> "none"] ELSE [loc |-> LTz, kind |-> "w"]
      [] OTHER -> [kind |-> "none"]
Holds(p) == lock = p
\* the zone cache is accessed only by the lock holder (so two accesses to it are never adjacent)
TzGuarded == \A p \in Procs : Access(p).kind # "none" /\ Access(p).loc = LTz => Holds(p)

(* ---------------------------------------------------------------- actions *)
\* the pure functions the actions are made of (shared with the trace root)
AtomicDraw(c) == [c |-> c + 1, n |-> c + 1]

Adv(p) == pc' = [pc EXCEPT ![p] = @ + 1]
Do(p) ==
  /\ ~Done(p)
  /\ LET s == Step(p) IN
     CASE s.op \in {"rd", "wr", "use_ops", "publish", "done_invoke", "tz_parse"} ->
            /\ Adv(p)
            /\ seen' = IF s.op = "use_ops" THEN [seen EXCEPT ![p] = Append(@, ops[s.e])] ELSE seen
            /\ UNCHANGED <<prog, counter, tmp, names, ops, inited, need, lock, tz, tzhit>>
       [] s.op = "rd_init" ->
            /\ Adv(p) /\ need' = [need EXCEPT ![p] = ~inited[s.e]]
            /\ UNCHANGED <<prog, counter, tmp, names, ops, inited, seen, lock, tz, tzhit>>
       [] s.op = "wr_ops" ->
            /\ Adv(p) /\ ops' = IF need[p] THEN [ops EXCEPT ![s.e] = @ \o BuiltinOps] ELSE ops
            /\ UNCHANGED <<prog, counter, tmp, names, inited, need, seen, lock, tz, tzhit>>
       [] s.op = "wr_funs" ->
            /\ Adv(p) /\ UNCHANGED <<prog, counter, tmp, names, ops, inited, need, seen, lock, tz, tzhit>>
       [] s.op = "wr_init" ->
            /\ Adv(p) /\ inited' = IF need[p] THEN [inited EXCEPT ![s.e] = TRUE] ELSE inited
            /\ need' = [need EXCEPT ![p] = FALSE]
            /\ UNCHANGED <<prog, counter, tmp, names, ops, seen, lock, tz, tzhit>>
       [] s.op = "sort" ->
            /\ Adv(p) /\ ops' = [ops EXCEPT ![s.e] = SortDesc(@)]
            /\ UNCHANGED <<prog, counter, tmp, names, inited, need, seen, lock, tz, tzhit>>
       [] s.op = "draw" ->
            /\ Adv(p) /\ counter' = AtomicDraw(counter).c /\ names' = [names EXCEPT ![p] = Append(@, AtomicDraw(counter).n)]
            /\ UNCHANGED <<prog, tmp, ops, inited, need, seen, lock, tz, tzhit>>
       [] s.op = "draw_ld" ->
            /\ Adv(p) /\ tmp' = [tmp EXCEPT ![p] = counter]
            /\ UNCHANGED <<prog, counter, names, ops, inited, need, seen, lock, tz, tzhit>>
       [] s.op = "draw_st" ->
            /\ Adv(p) /\ counter' = tmp[p] + 1
            /\ UNCHANGED <<prog, tmp, names, ops, inited, need, seen, lock, tz, tzhit>>
       [] s.op = "draw_rd" ->
            /\ Adv(p) /\ names' = [names EXCEPT ![p] = Append(@, counter)]
            /\ UNCHANGED <<prog, counter, tmp, ops, inited, need, seen, lock, tz, tzhit>>
       [] s.op = "lock" ->
            /\ lock = 0 /\ lock' = p /\ Adv(p)
            /\ UNCHANGED <<prog, counter, tmp, names, ops, inited, need, seen, tz, tzhit>>
       [] s.op = "unlock" ->
            /\ lock = p /\ lock' = 0 /\ Adv(p)
            /\ UNCHANGED <<prog, counter, tmp, names, ops, inited, need, seen, tz, tzhit>>
       [] s.op = "tz_rd" ->
            /\ Adv(p) /\ tzhit' = [tzhit EXCEPT ![p] = tz]
            /\ UNCHANGED <<prog, counter, tmp, names, ops, inited, need, seen, lock, tz>>
       [] s.op = "tz_wr" ->
            /\ Adv(p) /\ tz' = TRUE
            /\ UNCHANGED <<prog, counter, tmp, names, ops, inited, need, seen, lock, tzhit>>
CNext == \E p \in Procs : Do(p)

CInit(progs, warm, ne) ==
  /\ prog = progs
  /\ pc = [p \in DOMAIN progs |-> 1]
  /\ counter = 0
  /\ tmp = [p \in DOMAIN progs |-> 0]
  /\ names = [p \in DOMAIN progs |-> <<>>]
  /\ ops = [e \in 1..ne |-> IF warm THEN SortDesc(BuiltinOps) ELSE <<>>]
  /\ inited = [e \in 1..ne |-> warm]
  /\ need = [p \in DOMAIN progs |-> FALSE]
  /\ seen = [p \in DOMAIN progs |-> <<>>]
  /\ lock = 0 /\ tz = FALSE
  /\ tzhit = [p \in DOMAIN progs |-> FALSE]

(* ---------------------------------------------------------------- properties *)
\* no data races
RaceFree == \A p, q \in Procs : p # q =>
              LET a == Access(p) b == Access(q) IN
              ~(/\ a.kind # "none" /\ b.kind # "none" /\ a.loc = b.loc
                /\ ~(a.kind = "r" /\ b.kind = "r") /\ ~(a.kind = "a" /\ b.kind = "a")
                /\ ~(Holds(p) /\ Holds(q)))
\* every compilation has the outcome it has when run alone: the variables it drew are pairwise distinct
\* (substitutions are keyed by variable NAME), and its lexer and parser were built from the sorted built-in table
Distinct(s) == \A i, j \in 1..Len(s) : i # j => s[i] # s[j]
FreshNames == \A p \in Procs : Distinct(names[p])
GloballyFresh == \A p, q \in Procs : p # q => \A i \in 1..Len(names[p]), j \in 1..Len(names[q]) : names[p][i] # names[q][j]
SameTables == \A p \in Procs : \A i \in 1..Len(seen[p]) : seen[p][i] = SortDesc(BuiltinOps)
\* nobody waits forever: whenever some process is not finished, some process can step
NoStuck == (\A p \in Procs : Done(p)) \/ (\E p \in Procs : ~Done(p) /\ (Step(p).op = "lock" => lock = 0) /\ (Step(p).op = "unlock" => lock = p))
\* the counter is exactly the number of completed draws (no update is lost)
NoLostDraw == (\A p \in Procs : Done(p)) => counter = FoldLeft(LAMBDA a, p : a + Len(names[p]), 0, [i \in 1..Cardinality(Procs) |-> i])
=============================================================================
