---------------------------- MODULE Trace_Conc ----------------------------
(***************************************************************************)
(* Mode C for C14: one record = one concurrent scenario run by the Go      *)
(* harness (built with -race, one process per scenario).  Rejected when    *)
(*   race    the race detector reported a race inside yae (the             *)
(*           specification's RaceFree invariant says no reachable state    *)
(*           of the skeleton has one)                                      *)
(*   alone   some goroutine's outcome differs from the outcome of the      *)
(*           same work run alone                                           *)
(*   spec    the outcome alone differs from the specification's Run        *)
(*   draws   the recorded draws from the type-variable counter are not a   *)
(*           behaviour of the atomic Draw action (AtomicDraw): replaying   *)
(*           them in value order, every draw must return counter + 1, and  *)
(*           each goroutine's own draws must be increasing                 *)
(***************************************************************************)
EXTENDS YaeConc, YaeUniverse2, YaeIO

Obs == ObsLoaded
NObs == Len(Obs)
VARIABLE st

Override(env, ov) == [i \in 1..Len(env) |->
                        IF \E j \in 1..Len(ov) : ov[j].n = env[i].n THEN ov[CHOOSE j \in 1..Len(ov) : ov[j].n = env[i].n] ELSE env[i]]
KindsFor(why) == CASE why = "index" -> {"assert-index", "rt-bounds"} [] why = "key" -> {"assert-key"}
                   [] why = "mod0" -> {"rt-divide"} [] why = "regex" -> {"regex"} [] OTHER -> {}
Same(a, b) == /\ a.class = b.class
              /\ (a.class = "value" => NormVal(a.v) = NormVal(b.v))
              /\ (a.class = "fail" => a.kind = b.kind)
AllDraws(d) == Concat(d)
DrawsOK(d) ==
  LET all == AllDraws(d)
      DS == {all[i] : i \in 1..Len(all)}
      lo == IF DS = {} THEN 1 ELSE CHOOSE x \in DS : \A y \in DS : x <= y
      replay == FoldLeft(LAMBDA s, k : IF s.ok /\ AtomicDraw(s.c).n \in DS THEN [ok |-> TRUE, c |-> AtomicDraw(s.c).c] ELSE [ok |-> FALSE, c |-> s.c],
                         [ok |-> TRUE, c |-> lo - 1], [k \in 1..Len(all) |-> k])
  IN /\ Cardinality(DS) = Len(all)            \* no value was drawn twice
     /\ replay.ok                            \* and none is missing in between
     /\ \A g \in 1..Len(d) : \A i \in 1..(Len(d[g]) - 1) : d[g][i] < d[g][i + 1]

Judge(rec) ==
  LET o == rec.obs IN
  IF "died" \in DOMAIN o THEN {"total"}
  ELSE
    LET G == rec.g
        ProgIdx(g) == IF rec.kind \in {"invoke", "shared"} \/ (rec.kind = "mixed" /\ g % 2 = 0) THEN 1 ELSE g
        EnvIx(g) == IF rec.kind = "shared" THEN 1 ELSE g        \* shared: one environment object for all
        Spec(g) == Run2(rec.progs[ProgIdx(g)], InEnv(Override(StdEnvIn(rec.envid), rec.ovs[EnvIx(g)])), StdPre(rec.envid), StdPost(rec.envid))
        SpecBad(g) == LET run == Spec(g) a == o.alone[g] IN
                      \/ run.acc # (a.class # "reject")
                      \/ run.acc /\ run.r.st = "ok" /\ ~(a.class = "value" /\ NormVal(a.v) = NormVal(Proj(run.r.v)))
                      \/ run.acc /\ run.r.st = "fail" /\ ~(a.class = "fail" /\ a.kind \in KindsFor(run.r.why))
    IN (IF \E i \in 1..Len(o.proc.races) : \E k \in 1..Len(o.proc.races[i].owners) : o.proc.races[i].owners[k] = "yae" THEN {"race"} ELSE {})
       \cup (IF \E g \in 1..G : \E r \in 1..Len(o.conc[g]) : ~Same(o.conc[g][r], o.alone[g]) THEN {"alone"} ELSE {})
       \cup (IF \E g \in 1..G : \E r \in 1..Len(o.conc2[g]) : ~Same(o.conc2[g][r], o.alone[g]) THEN {"alone"} ELSE {})
       \cup (IF \E g \in 1..G : Len(o.conc[g]) # rec.rounds \/ Len(o.conc2[g]) # rec.rounds THEN {"total"} ELSE {})
       \cup (IF \E g \in 1..G : SpecBad(g) THEN {"spec"} ELSE {})
       \cup (IF ~DrawsOK(o.draws) THEN {"draws"} ELSE {})
\* a race entirely inside the harness would be the harness's defect: the record is not judged
Skip(rec) == LET o == rec.obs IN
             IF "died" \in DOMAIN o THEN ""
             ELSE IF \E i \in 1..Len(o.proc.races) : \A k \in 1..Len(o.proc.races[i].owners) : o.proc.races[i].owners[k] # "yae"
                  THEN "harness race" ELSE ""
InitT == st \in {[c |-> c, l |-> ChunkLo(c, NObs)] : c \in 1..NChunks} /\ CInit([p \in 1..1 |-> <<>>], TRUE, 1)
NextT == /\ st.l <= ChunkHi(st.c, NObs)
         /\ EmitVerdict(Obs[st.l].id, Judge(Obs[st.l]), Skip(Obs[st.l]))
         /\ st' = [st EXCEPT !.l = @ + 1]
         /\ UNCHANGED cvars
=============================================================================
