---------------------------- MODULE Yae ----------------------------
(***************************************************************************)
(* The whole pipeline as one specification:                                *)
(*   source text --Lex--> tokens --Parse--> tree --Desugar--> core tree    *)
(*      --decode literals--> --Check--> typed tree --Eval / VM--> outcome  *)
(* and, as a state machine over `stage`, one action per stage (used by the *)
(* API and debug roots).  Literal decoding (parser/ast/factory.go,         *)
(* literal.go) lives here: decimal / exponent / 0x 0b 0o numbers on the    *)
(* exact number domain, string escapes, absolute time forms.               *)
(***************************************************************************)
EXTENDS YaeDesugar, YaeVM

HexVal(c) == IF IsDigitCP(c) THEN c - 48 ELSE IF c >= 97 THEN c - 87 ELSE c - 55
RadixVal(ds, base) == FoldLeft(LAMBDA acc, c : IF acc >= Lim THEN Lim ELSE acc * base + HexVal(c), 0, ds)
DigitsVal(ds) == FoldLeft(LAMBDA acc, c : IF acc >= Lim THEN Lim ELSE acc * 10 + (c - 48), 0, ds)
\* number literal -> number of YaeNum, or OOD when its value is not in the exact domain
DecodeNum(lex) ==
  IF Len(lex) >= 2 /\ lex[1] = 48 /\ lex[2] \in {120, 98, 111} THEN
    LET v == RadixVal(Sub(lex, 3, Len(lex)), IF lex[2] = 120 THEN 16 ELSE IF lex[2] = 98 THEN 2 ELSE 8) IN
    IF v >= Lim THEN OOD ELSE NInt(v)
  ELSE
    LET epos == IF \E i \in 1..Len(lex) : lex[i] \in {101, 69} THEN CHOOSE i \in 1..Len(lex) : lex[i] \in {101, 69} ELSE Len(lex) + 1
        mant == Sub(lex, 1, epos - 1)
        dpos == IndexOf(mant, 46)
        ip == IF dpos = 0 THEN mant ELSE Sub(mant, 1, dpos - 1)
        fp == IF dpos = 0 THEN <<>> ELSE Sub(mant, dpos + 1, Len(mant))
        ex == IF epos > Len(lex) THEN 0
              ELSE LET rest == Sub(lex, epos + 1, Len(lex))
                       neg == rest[1] = 45
                       ds == IF rest[1] \in {45, 43} THEN Tail(rest) ELSE rest IN
                   IF Len(ds) > 3 THEN 999 ELSE (IF neg THEN -DigitsVal(ds) ELSE DigitsVal(ds))
        M == DigitsVal(ip \o fp)
        E == ex - Len(fp) IN
    IF M >= Lim \/ AbsI(E) > 12 THEN OOD
    ELSE IF M = 0 THEN Zero
    ELSE IF E >= 0 THEN (IF M >= Lim \div Pow(10, E) THEN OOD ELSE NInt(M * Pow(10, E)))
    ELSE LET k == -E IN IF M % Pow(5, k) # 0 THEN OOD ELSE Fin(M \div Pow(5, k), k, 0)

\* string literal -> text (strconv.Unquote on what the lexer admits and StrLexOk accepts)
DecodeStr(lex) ==
  IF lex[1] = 96 THEN Sub(lex, 2, Len(lex) - 1)
  ELSE LET RECURSIVE D(_, _)
           D(i, acc) ==
             IF i >= Len(lex) THEN acc
             ELSE IF lex[i] = 92 THEN
               (LET c == lex[i + 1] IN
                IF c = 117 THEN D(i + 6, Append(acc, HexVal(lex[i + 2]) * 4096 + HexVal(lex[i + 3]) * 256 + HexVal(lex[i + 4]) * 16 + HexVal(lex[i + 5])))
                ELSE D(i + 2, Append(acc, CASE c = 110 -> 10 [] c = 116 -> 9 [] c = 114 -> 13 [] c = 98 -> 8 [] c = 102 -> 12 [] OTHER -> c)))
             ELSE D(i + 1, Append(acc, lex[i]))
       IN D(2, <<>>)

\* desugared, positioned tree -> core tree for Check / Eval; [ok, e] or [ok |-> FALSE] (a literal outside the domain)
RECURSIVE ToCore(_)
ToCore(n) ==
  LET All(ts) == \A i \in 1..Len(ts) : ts[i].ok IN
  CASE n.k = "num" -> LET v == DecodeNum(n.lex) IN IF IsOOD(v) THEN [ok |-> FALSE] ELSE [ok |-> TRUE, e |-> [k |-> "num", v |-> v]]
    [] n.k = "str" -> [ok |-> TRUE, e |-> [k |-> "str", v |-> DecodeStr(n.lex)]]
    [] n.k = "bool" -> [ok |-> TRUE, e |-> [k |-> "bool", v |-> n.lex = N_true]]
    [] n.k = "time" -> LET r == StrToTime(Sub(n.lex, 2, Len(n.lex) - 1)) IN
                       IF r.ok THEN [ok |-> TRUE, e |-> [k |-> "time", v |-> r.t]] ELSE [ok |-> FALSE]
    [] n.k = "id" -> [ok |-> TRUE, e |-> [k |-> "id", n |-> n.n, dc |-> n.pos.col]]
    [] n.k = "list" -> LET ts == [i \in 1..Len(n.els) |-> ToCore(n.els[i])] IN
                       IF All(ts) THEN [ok |-> TRUE, e |-> [k |-> "list", els |-> [i \in 1..Len(ts) |-> ts[i].e]]] ELSE [ok |-> FALSE]
    [] n.k = "map" -> LET ks == [i \in 1..Len(n.ps) |-> ToCore(n.ps[i].key)]
                          vs == [i \in 1..Len(n.ps) |-> ToCore(n.ps[i].val)] IN
                      IF All(ks) /\ All(vs) THEN [ok |-> TRUE, e |-> [k |-> "map", ps |-> [i \in 1..Len(ks) |-> [key |-> ks[i].e, val |-> vs[i].e]]]]
                      ELSE [ok |-> FALSE]
    [] n.k = "obj" -> LET ts == [i \in 1..Len(n.fs) |-> ToCore(n.fs[i].v)] IN
                      IF All(ts) THEN [ok |-> TRUE, e |-> [k |-> "obj", fs |-> [i \in 1..Len(ts) |-> [n |-> n.fs[i].n, v |-> ts[i].e]]]] ELSE [ok |-> FALSE]
    [] n.k = "call" -> LET f == ToCore(n.f)
                           ts == [i \in 1..Len(n.args) |-> ToCore(n.args[i])] IN
                       IF f.ok /\ All(ts) THEN [ok |-> TRUE, e |-> [k |-> "call", f |-> f.e, args |-> [i \in 1..Len(ts) |-> ts[i].e], dc |-> n.dc]]
                       ELSE [ok |-> FALSE]
    [] n.k = "sub" -> LET x == ToCore(n.x) i == ToCore(n.i) IN
                      IF x.ok /\ i.ok THEN [ok |-> TRUE, e |-> [k |-> "sub", x |-> x.e, i |-> i.e, dc |-> n.dc]] ELSE [ok |-> FALSE]
    [] n.k = "mem" -> LET x == ToCore(n.x) IN
                      IF x.ok THEN [ok |-> TRUE, e |-> [k |-> "mem", x |-> x.e, n |-> n.n, dc |-> n.dc]] ELSE [ok |-> FALSE]
    [] OTHER -> [ok |-> FALSE]

\* source -> outcome.  stage at which it ended: "lex" / "parse" / "check" (compile-time rejections),
\* "ood" (not judged), "run" (r = evaluation result)
FromSource(ops, src, venv, pre, post) ==
  LET lx == Lex(ops, src) IN
  IF ~lx.ok THEN [stage |-> "lex"]
  ELSE LET pr == Parse(ops, lx.toks) IN
       IF ~pr.ok THEN (IF pr.why = "ood" THEN [stage |-> "ood"] ELSE [stage |-> "parse", eats |-> pr.st.eats])
       ELSE LET co == ToCore(Desugar(pr.node)) IN
            IF ~co.ok THEN [stage |-> "ood"]
            ELSE LET run == Run2(co.e, venv, pre, post) IN
                 IF ~run.acc THEN [stage |-> "check", why |-> run.why]
                 ELSE [stage |-> "run", ty |-> run.ty, e |-> run.e, r |-> run.r, eats |-> pr.st.eats]
\* the API's outcome alphabet: a value or an error
ApiClass(fs) ==
  CASE fs.stage \in {"lex", "parse", "check"} -> "error"
    [] fs.stage = "ood" -> "ood"
    [] fs.r.st = "ok" -> "value"
    [] fs.r.st = "fail" -> "error"
    [] fs.r.st = "ood" -> "ood"
    [] OTHER -> "stuck"
=============================================================================
