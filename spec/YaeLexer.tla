---------------------------- MODULE YaeLexer ----------------------------
(***************************************************************************)
(* The lexer of yae (parser/lexer/*.go, parser/oper/*.go, parser/pos):     *)
(* an ordered list of rules, first match wins; operators stably sorted by  *)
(* decreasing (byte) length before they are registered; identifier-like    *)
(* operators as whole words; the built-in `.` and `?` only when not the    *)
(* head of a longer operator; number / string / time / symbol automata     *)
(* transcribed from the regular expressions; a cursor moving rune by rune. *)
(* Input and lexemes are code-point sequences.  Token:                     *)
(*   [k |-> kind, lex, idx, end, line, col]   (0-based, end exclusive)     *)
(***************************************************************************)
EXTENDS YaeBase

\* the literals true / false are recognised only as whole words (property C09)
TrueFalseRule == "kw"
K_NUM == N_knum
K_STR == N_kstr
K_TIME == N_ktime
K_SYM == N_ksym

IsSpaceCP(c) == c \in {32, 9, 10, 11, 12, 13, 133, 160}
IsDigitCP(c) == c >= 48 /\ c <= 57
IsAsciiLetter(c) == (c >= 65 /\ c <= 90) \/ (c >= 97 /\ c <= 122)
\* \p{L} on the modelled alphabet (U+02C6 MODIFIER LETTER CIRCUMFLEX ACCENT is a letter, too)
IsLetterCP(c) == IsAsciiLetter(c) \/ c \in {233, 26195, 25105, 955, 710, 224, 1076}
IsWordStart(c) == IsLetterCP(c) \/ c = 95
IsWordChar(c) == IsLetterCP(c) \/ IsDigitCP(c) \/ c = 95
IsHex(c) == IsDigitCP(c) \/ (c >= 97 /\ c <= 102) \/ (c >= 65 /\ c <= 70)
\* oper.operators = ":!#$%^&*+./<=>?@\ˆ|~-"
OperChars == {58, 33, 35, 36, 37, 94, 38, 42, 43, 46, 47, 60, 61, 62, 63, 64, 92, 710, 124, 126, 45}
Utf8Len(c) == IF c < 128 THEN 1 ELSE IF c < 2048 THEN 2 ELSE IF c < 65536 THEN 3 ELSE 4
ByteLen(s) == FoldLeft(LAMBDA acc, c : acc + Utf8Len(c), 0, s)
\* oper.IsIdentOp
IsIdentOp(s) == s # <<>> /\ IsWordStart(s[1]) /\ \A i \in 2..Len(s) : IsWordChar(s[i])

(* ---- operators ---- *)
Op(k, bp, fix) == [k |-> k, bp |-> bp, fix |-> fix]       \* bp in HALF units (BP is a float in the code)
\* oper.BuiltIn(), in declaration order; binding powers: oper/bp.go
BP_COND == 4  BP_OR == 6  BP_AND == 8  BP_EQ == 10  BP_CMP == 12  BP_TERM == 14  BP_FACTOR == 16
BP_EXP == 18  BP_PREFIX == 20  BP_POSTFIX == 22  BP_CALL == 24  BP_MEMBER == 26
BuiltinOps == <<
  Op(N_plus, BP_PREFIX, "prefix"), Op(N_minus, BP_PREFIX, "prefix"),
  Op(N_plus, BP_TERM, "infixl"), Op(N_minus, BP_TERM, "infixl"), Op(N_star, BP_FACTOR, "infixl"),
  Op(N_slash, BP_FACTOR, "infixl"), Op(N_percent, BP_FACTOR, "infixl"), Op(N_caret, BP_EXP, "infixr"),
  Op(N_le, BP_CMP, "infixn"), Op(N_lt, BP_CMP, "infixn"), Op(N_ge, BP_CMP, "infixn"), Op(N_gt, BP_CMP, "infixn"),
  Op(N_eqeq, BP_EQ, "infixn"), Op(N_ne, BP_EQ, "infixn"),
  Op(N_oror, BP_OR, "infixl"), Op(N_andand, BP_AND, "infixl"), Op(N_bang, BP_PREFIX, "prefix"),
  Op(N_or, BP_OR, "infixl"), Op(N_and, BP_AND, "infixl"), Op(N_not, BP_PREFIX, "prefix")>>
\* oper.Sort: stable, by decreasing byte length
SortOps(ops) ==
  LET RECURSIVE Ins(_, _)
      Ins(t, x) == IF t = <<>> THEN <<x>>
                   ELSE IF ByteLen(x.k) > ByteLen(t[Len(t)].k) THEN Ins(Sub(t, 1, Len(t) - 1), x) \o <<t[Len(t)]>>
                   ELSE Append(t, x)
  IN FoldLeft(LAMBDA acc, x : Ins(acc, x), <<>>, ops)

(* ---- rule matchers: number of code points matched at position `at` (1-based), or -1 ---- *)
\* greedy run of characters satisfying P, starting at `at`; returns the first position after it
RunEnd(s, at, P(_)) ==
  IF \E j \in at..Len(s) : ~P(s[j])
  THEN CHOOSE j \in at..Len(s) : ~P(s[j]) /\ \A i \in at..(j - 1) : P(s[i])
  ELSE MaxI(at, Len(s) + 1)
MatchStr(s, at, lit) == IF IsPrefixAt(lit, s, at) THEN Len(lit) ELSE -1
\* keyword: the literal, not followed by a word character
MatchKeyword(s, at, lit) ==
  IF IsPrefixAt(lit, s, at) /\ ~(at + Len(lit) <= Len(s) /\ IsWordChar(s[at + Len(lit)])) THEN Len(lit) ELSE -1
\* primOper: `.` / `?` only if what follows does not start with an operator character
MatchPrim(s, at, lit) ==
  IF IsPrefixAt(lit, s, at) /\ ~(at + Len(lit) <= Len(s) /\ s[at + Len(lit)] \in OperChars) THEN Len(lit) ELSE -1

\* (0|[1-9][0-9]*) : first position after it, or 0
IntEnd(s, at) == IF at > Len(s) THEN 0
                 ELSE IF s[at] = 48 THEN at + 1
                 ELSE IF s[at] >= 49 /\ s[at] <= 57 THEN RunEnd(s, at + 1, IsDigitCP) ELSE 0
\* ([.][0-9]+)* greedy: position after the last complete group
RECURSIVE FracEnd(_, _)
FracEnd(s, at) == IF at + 1 <= Len(s) /\ s[at] = 46 /\ IsDigitCP(s[at + 1]) THEN FracEnd(s, RunEnd(s, at + 1, IsDigitCP)) ELSE at
OneFracEnd(s, at) == IF at + 1 <= Len(s) /\ s[at] = 46 /\ IsDigitCP(s[at + 1]) THEN RunEnd(s, at + 1, IsDigitCP) ELSE at
\* ([eE][-+]?[0-9]+)* greedy
RECURSIVE ExpEnd(_, _)
ExpEnd(s, at) ==
  IF at <= Len(s) /\ s[at] \in {101, 69} THEN
    LET a2 == IF at + 1 <= Len(s) /\ s[at + 1] \in {45, 43} THEN at + 2 ELSE at + 1 IN
    IF a2 <= Len(s) /\ IsDigitCP(s[a2]) THEN ExpEnd(s, RunEnd(s, a2, IsDigitCP)) ELSE at
  ELSE at
OneExpEnd(s, at) ==
  IF at <= Len(s) /\ s[at] \in {101, 69} THEN
    LET a2 == IF at + 1 <= Len(s) /\ s[at + 1] \in {45, 43} THEN at + 2 ELSE at + 1 IN
    IF a2 <= Len(s) /\ IsDigitCP(s[a2]) THEN RunEnd(s, a2, IsDigitCP) ELSE at
  ELSE at
\* float 1: int (.digits)+ (exp)?
MatchFloat1(s, at) == LET i == IntEnd(s, at) IN IF i = 0 THEN -1
                      ELSE LET f == FracEnd(s, i) IN IF f = i THEN -1 ELSE OneExpEnd(s, f) - at
\* float 2: int (.digits)? (exp)+
MatchFloat2(s, at) == LET i == IntEnd(s, at) IN IF i = 0 THEN -1
                      ELSE LET f == OneFracEnd(s, i) e1 == ExpEnd(s, f) IN
                           IF e1 # f THEN e1 - at
                           ELSE LET e0 == ExpEnd(s, i) IN IF e0 # i THEN e0 - at ELSE -1
MatchRadix(s, at, letter, First(_), Rest(_)) ==      \* 0b(0|1[01]*), 0x(0|[1-9a-fA-F][..]*), 0o(0|[1-7][0-7]*)
  IF at + 2 <= Len(s) /\ s[at] = 48 /\ s[at + 1] = letter THEN
    (IF s[at + 2] = 48 THEN 3 ELSE IF First(s[at + 2]) THEN RunEnd(s, at + 3, Rest) - at ELSE -1)
  ELSE -1
MatchInt(s, at) == LET i == IntEnd(s, at) IN IF i = 0 THEN -1 ELSE i - at
\* "(?:[^"\\]*|\\["\\trnbf\/]|\\u[0-9a-fA-F]{4})*"
RECURSIVE StrBody(_, _)
StrBody(s, at) ==       \* position of the closing quote, or 0
  IF at > Len(s) THEN 0
  ELSE IF s[at] = 34 THEN at
  ELSE IF s[at] = 92 THEN
    (IF at + 1 <= Len(s) /\ s[at + 1] \in {34, 92, 116, 114, 110, 98, 102, 47} THEN StrBody(s, at + 2)
     ELSE IF at + 5 <= Len(s) /\ s[at + 1] = 117 /\ \A j \in 2..5 : IsHex(s[at + j]) THEN StrBody(s, at + 6)
     ELSE 0)
  ELSE StrBody(s, at + 1)
MatchDq(s, at) == IF at <= Len(s) /\ s[at] = 34 THEN (LET c == StrBody(s, at + 1) IN IF c = 0 THEN -1 ELSE c + 1 - at) ELSE -1
MatchRaw(s, at) == IF at <= Len(s) /\ s[at] = 96
                   THEN (LET c == RunEnd(s, at + 1, LAMBDA x : x # 96) IN IF c <= Len(s) THEN c + 1 - at ELSE -1) ELSE -1
MatchTime(s, at) == IF at <= Len(s) /\ s[at] = 39
                    THEN (LET c == RunEnd(s, at + 1, LAMBDA x : x \notin {96, 34, 39}) IN
                          IF c <= Len(s) /\ s[c] = 39 THEN c + 1 - at ELSE -1) ELSE -1
MatchSym(s, at) == IF at <= Len(s) /\ IsWordStart(s[at]) THEN RunEnd(s, at + 1, IsWordChar) - at ELSE -1

(* ---- the lexicon: rules in registration order (lexer/factory.go) ---- *)
Rule(k, m, lit) == [k |-> k, m |-> m, lit |-> lit]
Punct == <<N_colon, N_comma, N_lpar, N_rpar, N_lbr, N_rbr, N_lbrace, N_rbrace>>
Lexicon(ops) ==
  [i \in 1..Len(Punct) |-> Rule(Punct[i], "str", Punct[i])]
    \o <<Rule(N_dot, "prim", N_dot), Rule(N_question, "prim", N_question)>>
    \o (LET so == SortOps(ops) IN [i \in 1..Len(so) |-> Rule(so[i].k, IF IsIdentOp(so[i].k) THEN "kw" ELSE "str", so[i].k)])
    \o <<Rule(N_true, TrueFalseRule, N_true), Rule(N_false, TrueFalseRule, N_false),
         Rule(K_NUM, "float1", <<>>), Rule(K_NUM, "float2", <<>>), Rule(K_NUM, "bin", <<>>), Rule(K_NUM, "hex", <<>>),
         Rule(K_NUM, "oct", <<>>), Rule(K_NUM, "int", <<>>), Rule(K_STR, "dq", <<>>), Rule(K_STR, "raw", <<>>),
         Rule(K_TIME, "time", <<>>), Rule(K_SYM, "sym", <<>>)>>
MatchRule(r, s, at) ==
  CASE r.m = "str" -> MatchStr(s, at, r.lit)
    [] r.m = "kw" -> MatchKeyword(s, at, r.lit)
    [] r.m = "prim" -> MatchPrim(s, at, r.lit)
    [] r.m = "float1" -> MatchFloat1(s, at)
    [] r.m = "float2" -> MatchFloat2(s, at)
    [] r.m = "bin" -> MatchRadix(s, at, 98, LAMBDA c : c = 49, LAMBDA c : c \in {48, 49})
    [] r.m = "hex" -> MatchRadix(s, at, 120, LAMBDA c : IsHex(c) /\ c # 48, IsHex)
    [] r.m = "oct" -> MatchRadix(s, at, 111, LAMBDA c : c >= 49 /\ c <= 55, LAMBDA c : c >= 48 /\ c <= 55)
    [] r.m = "int" -> MatchInt(s, at)
    [] r.m = "dq" -> MatchDq(s, at)
    [] r.m = "raw" -> MatchRaw(s, at)
    [] r.m = "time" -> MatchTime(s, at)
    [] r.m = "sym" -> MatchSym(s, at)
    [] OTHER -> -1

(* ---- the cursor machine: one step = skip white space and produce one token ---- *)
LexInit == [idx |-> 0, line |-> 0, col |-> 0, toks |-> <<>>, st |-> "run"]
\* pos.Move over the runes s[from+1 .. to] (0-based idx)
RECURSIVE MoveOver(_, _, _, _)
MoveOver(s, cur, n, i) ==
  IF i > n THEN cur
  ELSE LET c == s[cur.idx + 1] IN
       MoveOver(s, IF c = 10 THEN [cur EXCEPT !.idx = @ + 1, !.line = @ + 1, !.col = 0]
                   ELSE [cur EXCEPT !.idx = @ + 1, !.col = @ + 1], n, i + 1)
LexStep(lx, s, rules) ==
  LET sp == RunEnd(s, lx.idx + 1, IsSpaceCP) - (lx.idx + 1)
      c0 == MoveOver(s, lx, sp, 1) IN
  IF c0.idx >= Len(s) THEN [c0 EXCEPT !.st = "done"]
  ELSE LET hits == SelectSeq([i \in 1..Len(rules) |-> i], LAMBDA i : MatchRule(rules[i], s, c0.idx + 1) >= 0) IN
       IF hits = <<>> THEN [c0 EXCEPT !.st = "error"]
       ELSE LET r == rules[hits[1]]
                n == MatchRule(r, s, c0.idx + 1)
                c1 == MoveOver(s, c0, n, 1)
                tok == [k |-> r.k, lex |-> Sub(s, c0.idx + 1, c0.idx + n), idx |-> c0.idx, end |-> c1.idx,
                        line |-> c0.line, col |-> c0.col] IN
            IF n = 0 THEN [c0 EXCEPT !.st = "error"]        \* cannot happen: every rule consumes something
            ELSE [c1 EXCEPT !.toks = Append(@, tok)]
RECURSIVE LexRun(_, _, _)
LexRun(lx, s, rules) == IF lx.st # "run" THEN lx ELSE LexRun(LexStep(lx, s, rules), s, rules)
\* lexer.NewLexer(ops).Lex(input)
Lex(ops, s) == LET r == LexRun(LexInit, s, Lexicon(ops)) IN
               IF r.st = "done" THEN [ok |-> TRUE, toks |-> r.toks] ELSE [ok |-> FALSE, at |-> r.idx, toks |-> r.toks]

(***************************************************************************)
(* C09, declaratively, on a successful result.                             *)
(***************************************************************************)
LinesBefore(s, idx) == Cardinality({i \in 1..idx : s[i] = 10})
ColOf(s, idx) == LET nls == {i \in 1..idx : s[i] = 10} IN IF nls = {} THEN idx ELSE idx - Max(nls)
TokensPartition(s, toks) ==
  /\ \A i \in 1..Len(toks) : toks[i].idx < toks[i].end /\ toks[i].end <= Len(s) /\ toks[i].lex = Sub(s, toks[i].idx + 1, toks[i].end)
  /\ \A i \in 1..(Len(toks) - 1) : toks[i].end <= toks[i + 1].idx
  /\ \A p \in 1..Len(s) : (\E i \in 1..Len(toks) : toks[i].idx < p /\ p <= toks[i].end) \/ IsSpaceCP(s[p])
PositionsExact(s, toks) ==
  \A i \in 1..Len(toks) : toks[i].line = LinesBefore(s, toks[i].idx) /\ toks[i].col = ColOf(s, toks[i].idx)
SymbolicOps(ops) == {ops[i].k : i \in {j \in 1..Len(ops) : ~IsIdentOp(ops[j].k)}}
IdentOps(ops) == {ops[i].k : i \in {j \in 1..Len(ops) : IsIdentOp(ops[j].k)}}
\* among registered symbolic operators the longest one that matches is chosen
LongestOperator(ops, s, toks) ==
  \A i \in 1..Len(toks) : toks[i].k \in SymbolicOps(ops) /\ toks[i].k = toks[i].lex =>
     \A o \in SymbolicOps(ops) : IsPrefixAt(o, s, toks[i].idx + 1) => Len(o) <= Len(toks[i].lex)
\* identifier-like operators and true / false only as whole words
WholeWords(ops, s, toks) ==
  \A i \in 1..Len(toks) : toks[i].k \in IdentOps(ops) \cup {N_true, N_false} =>
     /\ ~(toks[i].end + 1 <= Len(s) /\ IsWordChar(s[toks[i].end + 1]))
\* the built-in . and ? are never split out of a longer registered operator
DotQuestionWhole(ops, s, toks) ==
  \A i \in 1..Len(toks) : toks[i].k \in {N_dot, N_question} /\ toks[i].lex = toks[i].k =>
     ~\E o \in SymbolicOps(ops) : Len(o) > 1 /\ IsPrefixAt(o, s, toks[i].idx + 1)
=============================================================================
