"""Known findings: genuine defects of goghcrow/yae that are recorded rather than
repaired.  The data (ids, property, description, status) lives in
/verif/known_findings.json; this module holds the predicates that decide whether
one rejected record IS that finding.  A predicate looks at the specific input /
call site / back end and the rejected conjuncts -- never at the property alone --
so a different violation of the same property is still reported."""
import json, os

ROOT = os.path.dirname(os.path.dirname(os.path.abspath(__file__)))


def _load():
    p = os.path.join(ROOT, "known_findings.json")
    if not os.path.exists(p):
        return {}
    data = json.load(open(p))
    return {f["id"]: f for f in data.get("findings", []) if f.get("status") == "open"}


FINDINGS = _load()
PRED = {}


def pred(fid):
    def deco(fn):
        PRED[fid] = fn
        return fn
    return deco


def match(prop, rec):
    """returns the id of the open finding explaining this rejected record, or None"""
    for fid, f in FINDINGS.items():
        if prop not in f.get("properties", [f.get("property")]):
            continue
        fn = PRED.get(fid)
        if fn is None:
            continue
        allowed = set(f.get("conjuncts", []))
        if allowed and not set(rec.get("_why", [])) <= allowed:
            continue
        try:
            if fn(rec):
                return fid
        except (KeyError, TypeError, IndexError):
            continue
    return None


# ----------------------------------------------------------------------------
# C17
def _shared_composite_twice(t, seen=None):
    """does a structurally identical composite sub-term occur at least twice in t"""
    seen = {} if seen is None else seen
    found = [False]

    def walk(u):
        if not isinstance(u, dict):
            return
        if u.get("k") in ("list", "maybe", "map", "obj", "fun", "tuple"):
            key = json.dumps(u, sort_keys=True)
            if u.get("k") != "tuple":
                seen[key] = seen.get(key, 0) + 1
                if seen[key] > 1:
                    found[0] = True
        for v in u.values():
            if isinstance(v, dict):
                walk(v)
            elif isinstance(v, list):
                for w in v:
                    walk(w)
    walk(t)
    return found[0]


@pred("C17-unify-shared-pointer-panic")
def _c17_shared(rec):
    u = rec["obs"]["unify"]
    return (rec.get("shared") is True and u["class"] == "panic" and u["msg"] == "not support recursive type"
            and (_shared_composite_twice(rec["x"]) or _shared_composite_twice(rec["y"])))


# ----------------------------------------------------------------------------
# evaluation family
@pred("VMCT-exec-limit-1024")
def _vmct_limit(rec):
    runs = rec["obs"]["runs"]
    if runs["vmct"].get("kind") != "exec-limit":
        return False
    # nothing but the call-threaded loop's outcome (and the resulting disagreement) was rejected
    return all(w.endswith("_vmct") for w in rec["_why"])


# ----------------------------------------------------------------------------
# C19
@pred("DBG-rec-column-bump")
def _dbg_bump(rec):
    # only the own-column conjunct was rejected (the entries equal the modelled bump: "columns_other" absent),
    # and the run did evaluate through the twice-forcing lazy function
    log = rec["obs"]["dbg"].get("log", [])
    return rec["_why"] == ["columns"] and any(l.get("f") == "U_TWICE" for l in log)
