---------------------------- MODULE YaeDebug ----------------------------
(***************************************************************************)
(* Debug (power-assert) evaluation: closure.DebugCompile + debug.Record +  *)
(* debug.Render.  DebugEval is Eval plus the list of recorded              *)
(* intermediate values << [v, col] >> in COMPLETION order: a variable,     *)
(* call, member or subscript term is recorded when its evaluation returns, *)
(* at the 1-based column of its own token (identifier: its first           *)
(* character; operator / ?: : the operator token, carried through          *)
(* desugaring; member: the "."; subscript: the "["; call: the "(").        *)
(* Literals and unevaluated lazy branches produce no record.  The report   *)
(* is specified declaratively (ReportOK).                                  *)
(***************************************************************************)
EXTENDS Yae

DOk(v, log, recs) == [st |-> "ok", v |-> v, log |-> log, recs |-> recs]
DRec(r, e) == IF "dc" \in DOMAIN e /\ r.st = "ok" THEN [r EXCEPT !.recs = Append(@, [v |-> r.v, col |-> e.dc + 1])] ELSE r
Carry(r, recs) == r @@ [recs |-> recs]          \* a non-ok result keeps the records made so far

RECURSIVE DEval(_, _, _, _, _), DSeq(_, _, _, _, _, _, _)
DSeq(es, i, acc, venv, funs, log, recs) ==
  IF i > Len(es) THEN [st |-> "ok", vs |-> acc, log |-> log, recs |-> recs]
  ELSE LET r == DEval(es[i], venv, funs, log, recs) IN
       IF r.st # "ok" THEN r ELSE DSeq(es, i + 1, Append(acc, r.v), venv, funs, r.log, r.recs)

DEval(e, venv, funs, log, recs) ==
  CASE e.k \in {"num", "str", "bool", "time"} -> DOk([k |-> e.k, v |-> e.v], log, recs)
    [] e.k = "list" -> LET r == DSeq(e.els, 1, <<>>, venv, funs, log, recs) IN
                       IF r.st # "ok" THEN r ELSE DOk(VList(e.ty, r.vs), r.log, r.recs)
    [] e.k = "obj" -> LET r == DSeq([i \in 1..Len(e.fs) |-> e.fs[i].v], 1, <<>>, venv, funs, log, recs) IN
                      IF r.st # "ok" THEN r ELSE DOk(VObj(e.ty, r.vs), r.log, r.recs)
    [] e.k = "map" ->
         LET flat == [i \in 1..(2 * Len(e.ps)) |-> IF i % 2 = 1 THEN e.ps[(i + 1) \div 2].key ELSE e.ps[i \div 2].val]
             r == DSeq(flat, 1, <<>>, venv, funs, log, recs) IN
         IF r.st # "ok" THEN r
         ELSE IF \E i \in 1..Len(e.ps) : ~KeyKnown(r.vs[2 * i - 1]) THEN [st |-> "ood", log |-> r.log, recs |-> r.recs]
         ELSE DOk(VMap(e.ty, FoldLeft(LAMBDA ents, i : MapPut(ents, r.vs[2 * i - 1], r.vs[2 * i]), <<>>, [i \in 1..Len(e.ps) |-> i])), r.log, r.recs)
    [] e.k = "id" -> LET i == VEnvIdx(venv, e.n) IN
                     IF i = 0 THEN [st |-> "stuck", kind |-> "unbound", log |-> log, recs |-> recs]
                     ELSE DRec(DOk(venv[i].v, log, recs), e)
    [] e.k = "mem" -> LET r == DEval(e.x, venv, funs, log, recs) IN
                      IF r.st # "ok" THEN r
                      ELSE LET j == FieldIdx(r.v.ty.fs, e.n) IN
                           IF j = 0 THEN [st |-> "stuck", kind |-> "no-field", log |-> r.log, recs |-> r.recs]
                           ELSE DRec(DOk(r.v.vals[j], r.log, r.recs), e)
    [] e.k = "sub" ->
         LET x == DEval(e.x, venv, funs, log, recs) IN
         IF x.st # "ok" THEN x ELSE
         LET i == DEval(e.i, venv, funs, x.log, x.recs) IN
         IF i.st # "ok" THEN i
         ELSE IF e.xk = "list" THEN
                (LET ix == ListIndex(x.v.els, i.v.v) IN
                 IF ix.st = "ood" THEN [st |-> "ood", log |-> i.log, recs |-> i.recs]
                 ELSE IF ix.st = "ok" THEN DRec(DOk(x.v.els[ix.i], i.log, i.recs), e)
                 ELSE [st |-> "fail", why |-> "index", log |-> i.log, recs |-> i.recs])
         ELSE (IF ~KeyKnown(i.v) THEN [st |-> "ood", log |-> i.log, recs |-> i.recs]
               ELSE LET j == EntIdx(x.v.ents, i.v.k, KeyText(i.v)) IN
                    IF j = 0 THEN [st |-> "fail", why |-> "key", log |-> i.log, recs |-> i.recs]
                    ELSE DRec(DOk(x.v.ents[j].val, i.log, i.recs), e))
    [] e.k = "call" ->
         IF e.res.kind = "static" THEN
           LET f == funs[e.res.fi] IN
           IF f.lazy THEN
             LET F(i, lg, rc) == DEval(e.args[i], venv, funs, lg, rc)
                 lg0 == IF IsUser(f) THEN LogCall(log, f.id, <<>>) ELSE log
                 res ==
                   CASE f.id \in {"IF_BOOL_ANY_ANY", "U_LIF"} ->
                          LET c == F(1, lg0, recs) IN
                          IF c.st # "ok" THEN c ELSE IF c.v.v THEN F(2, c.log, c.recs) ELSE F(3, c.log, c.recs)
                     [] f.id \in {"LOGIC_AND_BOOL_BOOL", "U_AND"} ->
                          LET c == F(1, lg0, recs) IN
                          IF c.st # "ok" THEN c ELSE IF c.v.v THEN F(2, c.log, c.recs) ELSE DOk(VBool(FALSE), c.log, c.recs)
                     [] f.id \in {"LOGIC_OR_BOOL_BOOL", "U_OR"} ->
                          LET c == F(1, lg0, recs) IN
                          IF c.st # "ok" THEN c ELSE IF c.v.v THEN DOk(VBool(TRUE), c.log, c.recs) ELSE F(2, c.log, c.recs)
                     [] f.id = "U_TWICE" -> LET c == F(1, lg0, recs) IN IF c.st # "ok" THEN c ELSE F(1, c.log, c.recs)
                     [] f.id = "U_NEVER" -> DOk(VNum(Zero), lg0, recs)
                     [] f.id = "U_SECOND" -> F(2, lg0, recs)
                     [] OTHER -> [st |-> "stuck", kind |-> "lazy", log |-> log, recs |-> recs]
             IN DRec(res, e)
           ELSE
             LET as == DSeq(e.args, 1, <<>>, venv, funs, log, recs) IN
             IF as.st # "ok" THEN as
             ELSE LET lg == IF IsUser(f) THEN LogCall(as.log, f.id, as.vs) ELSE as.log
                      r == ApplyBuiltin(f.id, as.vs) IN
                  CASE r.st = "ok" -> DRec(DOk(r.v, lg, as.recs), e)
                    [] r.st = "fail" -> [st |-> "fail", why |-> r.why, log |-> lg, recs |-> as.recs]
                    [] r.st = "ood" -> [st |-> "ood", log |-> lg, recs |-> as.recs]
                    [] OTHER -> [st |-> "stuck", kind |-> r.kind, log |-> lg, recs |-> as.recs]
         ELSE
           LET c == DEval(e.f, venv, funs, log, recs) IN
           IF c.st # "ok" THEN c
           ELSE LET as == DSeq(e.args, 1, <<>>, venv, funs, c.log, c.recs) IN
                IF as.st # "ok" THEN as
                ELSE LET lg == LogCall(as.log, c.v.fid, as.vs)
                         r == ApplyBuiltin(c.v.fid, as.vs) IN
                     CASE r.st = "ok" -> DRec(DOk(r.v, lg, as.recs), e)
                       [] r.st = "fail" -> [st |-> "fail", why |-> r.why, log |-> lg, recs |-> as.recs]
                       [] r.st = "ood" -> [st |-> "ood", log |-> lg, recs |-> as.recs]
                       [] OTHER -> [st |-> "stuck", kind |-> r.kind, log |-> lg, recs |-> as.recs]
    [] OTHER -> [st |-> "stuck", kind |-> "not-core", log |-> log, recs |-> recs]

DebugEval(e, venv, funs) == DEval(e, venv, funs, <<>>, <<>>)

(* ---- the report, declaratively ---- *)
SplitLines(text) ==
  LET nls == SelectSeq([i \in 1..Len(text) |-> i], LAMBDA i : text[i] = 10)
      b == <<0>> \o nls \o <<Len(text) + 1>>
  IN [k \in 1..(Len(nls) + 1) |-> Sub(text, b[k] + 1, b[k + 1] - 1)]
\* first line = the source; every record with a valid column is shown intact, its canonical rendering starting at its
\* column on some later line, with a bar in that column on every line between the source and it
\* NAMED DEVIATION of the code (debug.Record.Rec): a record whose column is already occupied is moved right to the next
\* free column.  Only a term that is evaluated more than once (a lazy user function evaluating its argument twice) is
\* affected; the property attributes every record to the column of its own term, so this is a recorded finding.
BumpRecs(recs) ==
  LET Free(acc, c) == LET RECURSIVE F(_)
                          F(x) == IF \E i \in 1..Len(acc) : acc[i].col = x THEN F(x + 1) ELSE x
                      IN F(c)
  IN FoldLeft(LAMBDA acc, r : Append(acc, [r EXCEPT !.col = Free(acc, r.col)]), <<>>, recs)
ReportOK(src, recs, text) ==
  LET ls == SplitLines(text) IN
  /\ Len(ls) >= 1 /\ ls[1] = src
  /\ \A r \in 1..Len(recs) : recs[r].col >= 1 /\ TextKnown(recs[r].v) =>
       LET t == Render(recs[r].v)
           c == recs[r].col IN
       \E L \in 3..Len(ls) :
          /\ Sub(ls[L], c, c + Len(t) - 1) = t
          /\ \A j \in 2..(L - 1) : Len(ls[j]) >= c /\ ls[j][c] = 124
=============================================================================
