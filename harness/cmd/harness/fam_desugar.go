package main

// family "desugar" (C10, structural half): parse with the real front end, then
// record the tree before desugaring, after, the original once more (must be
// untouched), the same tree desugared a second time, and the result desugared again.

import (
	"fmt"

	"github.com/goghcrow/yae"
	"github.com/goghcrow/yae/closure"
	"github.com/goghcrow/yae/compiler"
	"github.com/goghcrow/yae/fun"
	"github.com/goghcrow/yae/interp"
	"github.com/goghcrow/yae/parser"
	"github.com/goghcrow/yae/parser/ast"
	"github.com/goghcrow/yae/parser/lexer"
	"github.com/goghcrow/yae/parser/oper"
	"github.com/goghcrow/yae/trans"
	"github.com/goghcrow/yae/types"
	"github.com/goghcrow/yae/val"
)

type astExpr = ast.Expr

func init() {
	families["desugar"] = &Family{Run: runDesugar}
}

func runDesugar(c J) J {
	ops := opsFromJ(arr(c["ops"]))
	src := str(c["src"])
	var tree ast.Expr
	cl, _ := guard(func() {
		toks := lexer.NewLexer(append([]oper.Operator{}, ops...)).Lex(src)
		tree = parser.NewParser(append([]oper.Operator{}, ops...)).Parse(toks)
	})
	if cl != "ok" {
		return J{"parsed": false}
	}
	obs := J{"parsed": true}
	cl, msg := guard(func() {
		obs["before"] = cstJ(tree)
		d := trans.Desugar(tree)
		obs["after"] = cstJ(d)
		obs["before2"] = cstJ(tree)
		d2 := trans.Desugar(tree)
		obs["after2"] = cstJ(d2)
		obs["twice"] = cstJ(trans.Desugar(d))
	})
	obs["class"] = cl
	obs["msg"] = msg
	if str(c["opsid"]) == "builtin" {
		obs["reuse"] = reuseTree(src)
	}
	return obs
}

// reuseTree: ONE parsed tree compiled for three environments in a row (x a list, a number, a string) must behave,
// each time, like a freshly parsed tree compiled for that environment: desugaring and checking leave the parsed
// tree as it was.  Returns the list of environments for which it did not.
func reuseTree(src string) A {
	type envT struct {
		name string
		ty   *types.Type
		v    *val.Val
	}
	lst := val.List(types.List(types.Num).List(), 0)
	lst.List().V = []*val.Val{val.Num(1), val.Num(2)}
	envs := []envT{{"list", types.List(types.Num), lst}, {"num", types.Num, val.Num(3)}, {"str", types.Str, val.Str("ab")}}
	run := func(ex *yae.Expr, tree func() interface{}, e envT) string {
		out := "?"
		func() {
			defer func() {
				if r := recover(); r != nil {
					out = "reject"
				}
			}()
			te := types.NewEnv()
			te.Put("x", e.ty)
			clo := ex.CompileExpr(tree().(astExpr), te)
			ve := val.NewEnv()
			ve.Put("x", e.v)
			func() {
				defer func() {
					if r := recover(); r != nil {
						out = "fail"
					}
				}()
				v := clo(ve.Inherit(val.NewEnv()))
				out = "value " + fmt.Sprint(v)
			}()
		}()
		return out
	}
	bad := A{}
	var shared astExpr
	ok := true
	func() {
		defer func() {
			if r := recover(); r != nil {
				ok = false
			}
		}()
		shared = yae.NewExpr().Parse(src)
	}()
	if !ok {
		return bad
	}
	_ = run
	// compile the ONE parsed tree for each environment in turn, keep the closures, and only then invoke them all:
	// a later compilation must not change what an earlier callable computes (any back end, also the interpreter,
	// which reads the checker's annotations at run time)
	invoke := func(clo compiler.Closure, e envT) string {
		out := "?"
		func() {
			defer func() {
				if r := recover(); r != nil {
					out = "fail"
				}
			}()
			ve := val.NewEnv()
			ve.Put("x", e.v)
			rt := val.NewEnv() // the engine's run-time function table, rebuilt (the interpreter resolves calls at run time)
			for _, f := range fun.BuiltIn() {
				rt.RegisterFun(f)
			}
			out = "value " + fmt.Sprint(clo(ve.Inherit(rt)))
		}()
		return out
	}
	compile := func(ex *yae.Expr, tree astExpr, e envT) (clo compiler.Closure) {
		defer func() {
			if r := recover(); r != nil {
				clo = nil
			}
		}()
		te := types.NewEnv()
		te.Put("x", e.ty)
		return ex.CompileExpr(tree, te)
	}
	outcome := func(clo compiler.Closure, e envT) string {
		if clo == nil {
			return "reject"
		}
		return invoke(clo, e)
	}
	for _, b := range []struct {
		name string
		comp compiler.Compiler
	}{{"vm", nil}, {"closure", closure.Compile}, {"interp", interp.Interp}} {
		mk := func() *yae.Expr {
			ex := yae.NewExpr()
			if b.comp != nil {
				ex.UseCompiler(b.comp)
			}
			return ex
		}
		exShared := mk()
		clos := make([]compiler.Closure, len(envs))
		for i, e := range envs {
			clos[i] = compile(exShared, shared, e)
		}
		for i, e := range envs {
			got := outcome(clos[i], e)
			fresh := mk()
			var ft astExpr
			func() {
				defer func() { recover() }()
				ft = fresh.Parse(src)
			}()
			want := outcome(compile(fresh, ft, e), e)
			if got != want {
				bad = append(bad, J{"backend": b.name, "env": e.name, "reused": clip(got, 80), "fresh": clip(want, 80)})
			}
		}
	}
	return bad
}
