---------------------------- MODULE Gen_Eval ----------------------------
(***************************************************************************)
(* Evaluation family, Mode A + case generation.  Every case state is one   *)
(* program of a bounded universe together with the specification's own    *)
(* Run (check + big-step evaluation) in the standard environment; the      *)
(* invariants are the properties on the specification (preservation,       *)
(* progress, ...); every state is also written out as a case that the Go   *)
(* harness runs through the real pipeline.                                 *)
(*   P_MODE = "envs"  emit the standard environments (for the harness)     *)
(*            "u1"    all trees with one operator node                     *)
(*            "u2"    two operator nodes: a well-typed u1 tree in one      *)
(*                    operand position of a second operator                *)
(*   P_SIZE = 1 small leaf set / 2 full leaf set                           *)
(***************************************************************************)
EXTENDS YaeUniverse2, YaeIO

VARIABLE st
EnvId == "E1"
Env == InEnv(StdEnvIn(EnvId))
Pre == StdPre(EnvId)
L == IF P_SIZE >= 2 THEN LeavesFull ELSE LeavesSmall

\* a universe element is a tree (environment E1) or [e, envid]
MkCase(x) == IF "envid" \in DOMAIN x
             THEN [e |-> x.e, envid |-> x.envid, run |-> Run2(x.e, InEnv(StdEnvIn(x.envid)), StdPre(x.envid), StdPost(x.envid))]
             ELSE [e |-> x, envid |-> EnvId, run |-> Run(x, Env, Pre)]
IsCase == "run" \in DOMAIN st

AllU1(LL) == Concat([i \in 1..Len(Names1) |-> Calls1f(Names1[i], LL)])
               \o Concat([i \in 1..Len(Names2) |-> Calls2f(Names2[i], LL, LL)])
               \o Lits1(LL) \o Access1(LL)
AllU1c3(LL) == Concat([i \in 1..Len(Names3) |-> Calls3f(Names3[i], LL, LL, LL)])
WellTyped(e) == Check(e, TEnvOf(Env), FunTable(Pre)).ok
\* operand sequence for u2: one operand is a well-typed one-operator tree, the others are leaves
Ops == IF P_MODE = "u2" THEN SelectSeq(AllU1(LeavesSmall), WellTyped) ELSE <<>>
U2 == IF P_MODE # "u2" THEN <<>> ELSE
      Concat([i \in 1..Len(Names1) |-> Calls1f(Names1[i], Ops)])
        \o Concat([i \in 1..Len(Names2) |-> Calls2f(Names2[i], Ops, L) \o Calls2f(Names2[i], L, Ops)])
        \o Concat([i \in 1..Len(Names3) |-> Calls3f(Names3[i], L, Ops, L) \o Calls3f(Names3[i], L, L, Ops) \o Calls3f(Names3[i], Ops, L, L)])
        \o Prod2(Ops, L, LAMBDA a, b : EList(<<a, b>>)) \o Prod2(L, Ops, LAMBDA a, b : EList(<<a, b>>))
        \o Prod2(L, Ops, LAMBDA a, b : EMap(<<EPair(a, b)>>))
        \o Prod2(Ops, L, LAMBDA a, b : EObj(<<EFld(N_a, a), EFld(N_b, b)>>))
        \o Prod2(Ops, L, LAMBDA a, b : ESub(a, b)) \o Prod2(L, Ops, LAMBDA a, b : ESub(a, b))
        \o Prod2(Ops, FieldPool, LAMBDA a, n : EMem(a, n))

(* The universe of the selected mode: a constant, so TLC computes it once at start-up
   (it evaluates constant definitions eagerly -- hence the guards on P_MODE).        *)
Universe ==
  CASE P_MODE = "u1" -> AllU1(L) \o AllU1c3(L)
    [] P_MODE = "u2" -> U2
    [] P_MODE = "objs" -> ObjProgs
    [] P_MODE = "partial" -> PartialProgs
    [] P_MODE = "builtins" -> BuiltinProgs(P_SIZE)
    [] P_MODE = "lazy" -> LazyProgs
    [] P_MODE = "opt" -> OptProgs
    [] P_MODE = "over" -> OverProgs
    [] OTHER -> <<>>
NU == Len(Universe)
NSeeds == 64
SeedLo(i) == ((i - 1) * NU) \div NSeeds + 1
SeedHi(i) == (i * NU) \div NSeeds

Init == st \in IF P_MODE = "envs" THEN {[seed |-> 0]} ELSE {[seed |-> i] : i \in 1..NSeeds}
Next == /\ "seed" \in DOMAIN st
        /\ IF st.seed = 0 THEN st' = [envs |-> TRUE]
           ELSE \E j \in SeedLo(st.seed)..SeedHi(st.seed) : st' = MkCase(Universe[j])

Emit ==
  /\ IsCase => EmitCase([fam |-> "eval", e |-> st.e, envid |-> st.envid])
  /\ "envs" \in DOMAIN st => \A i \in 1..Len(EnvIds) :
        EmitCase([envid |-> EnvIds[i], env |-> StdEnvIn(EnvIds[i]), pre |-> StdPre(EnvIds[i]), post |-> StdPost(EnvIds[i])])

(* ---- the properties, on the specification (Mode A) ---- *)
Acc == IsCase /\ st.run.acc
\* C01: a produced value has the inferred type, deeply, with no absent component
Preservation == Acc /\ st.run.r.st = "ok" => HasType(st.run.r.v, st.run.ty)
\* C02: a checked program in a conforming environment never gets stuck, and fails only
\* through the four partial operations
Progress == Acc => st.run.r.st \in {"ok", "fail", "ood"}
FailsOnlyPartially == Acc /\ st.run.r.st = "fail" => st.run.r.why \in {"index", "key", "mod0", "regex"}
\* C05 (algorithm side): the inferred type is slot-free (fully concrete)
TypeConcrete == Acc => SlotFree(st.run.ty)
\* the standard environment conforms
EnvConforms == ConformingEnv(Env)
=============================================================================
