---------------------------- MODULE Trace_VM ----------------------------
(***************************************************************************)
(* Mode C for the bytecode back end (C03, C11).  One record = one program  *)
(* compiled by the real compiler and run by the real switch loop with the  *)
(* step hook on:                                                           *)
(*   obs = [acc, code, pool, trace |-> <<[b, pc, op, sp]>>, run]           *)
(* TLC (1) verifies the IMPLEMENTATION's bytecode structurally (C11:       *)
(* translation validation of each compiled program), (2) runs the          *)
(* specification's machine ON THAT BYTECODE and requires the recorded      *)
(* step sequence, outcome and host-call log to be the machine's (C03),     *)
(* and (3) compares with the big-step semantics of the source program.     *)
(***************************************************************************)
EXTENDS YaeUniverse, YaeVM, YaeIO

Obs == ObsLoaded
N == Len(Obs)
VARIABLE st

\* the observed pool in the specification's shape (values as projected)
PoolOf(p) == [i \in 1..Len(p) |->
                CASE p[i].ck = "val" -> [ck |-> "val", v |-> p[i].v]
                  [] p[i].ck = "thunk" -> [ck |-> "thunk", code |-> p[i].code, ret |-> p[i].ret]
                  [] OTHER -> p[i]]
\* function values in an environment are projected without their identity; the machine
\* needs it, so environments come from the case (not from the observation)
RunOfRec(rec) == IF "envid" \in DOMAIN rec THEN Run2(rec.e, InEnv(StdEnvIn(rec.envid)), StdPre(rec.envid), StdPost(rec.envid))
                 ELSE Run2(rec.e, InEnv(rec.env), rec.pre, IF "post" \in DOMAIN rec THEN rec.post ELSE <<>>)
EnvOfRec(rec) == IF "envid" \in DOMAIN rec THEN InEnv(StdEnvIn(rec.envid)) ELSE InEnv(rec.env)
FunsOfRec(rec) == IF "envid" \in DOMAIN rec THEN FunTable2(StdPre(rec.envid), StdPost(rec.envid))
                  ELSE FunTable2(rec.pre, IF "post" \in DOMAIN rec THEN rec.post ELSE <<>>)

DocKinds == {"assert-index", "rt-bounds", "assert-key", "rt-divide", "regex"}
KindsOf(why) == CASE why = "index" -> {"assert-index", "rt-bounds"} [] why = "key" -> {"assert-key"}
                  [] why = "mod0" -> {"rt-divide"} [] why = "regex" -> {"regex"} [] OTHER -> {}
RECURSIVE ProjV(_)
ProjV(v) ==
  CASE v.k = "list" -> [v EXCEPT !.els = [i \in 1..Len(v.els) |-> ProjV(v.els[i])]]
    [] v.k = "map" -> [v EXCEPT !.ents = [i \in 1..Len(v.ents) |-> [v.ents[i] EXCEPT !.val = ProjV(@)]]]
    [] v.k = "obj" -> [v EXCEPT !.vals = [i \in 1..Len(v.vals) |-> ProjV(v.vals[i])]]
    [] v.k = "maybe" -> IF v.some THEN [v EXCEPT !.v = ProjV(@)] ELSE v
    [] v.k = "fun" -> [k |-> "fun", ty |-> v.ty]
    [] OTHER -> v
LogP(log) == [i \in 1..Len(log) |-> [f |-> log[i].f, args |-> [j \in 1..Len(log[i].args) |-> NormVal(ProjV(log[i].args[j]))]]]
LogN(log) == [i \in 1..Len(log) |-> [f |-> log[i].f, args |-> [j \in 1..Len(log[i].args) |-> NormVal(log[i].args[j])]]]

\* programs at the limit of the encoding (flag big): only the jump structure of what the compiler emitted is judged
JudgeBig(rec) ==
  LET o == rec.obs IN
  IF "died" \in DOMAIN o THEN {"total"}
  ELSE IF ~o.acc THEN {}
  ELSE {"verify_" \o w : w \in VerifyJumps(o.code)}
         \cup UNION {{"verify_" \o w : w \in VerifyJumps(o.pool[i].code)} : i \in {j \in 1..Len(o.pool) : o.pool[j].ck = "thunk"}}
Judge(rec) ==
  IF "big" \in DOMAIN rec THEN JudgeBig(rec) ELSE
  LET o == rec.obs
      died == "died" \in DOMAIN o
      run == RunOfRec(rec) IN
  IF died THEN {"total"}
  ELSE IF ~o.acc THEN (IF run.acc THEN {"refused"} ELSE {})
  ELSE IF ~run.acc THEN {"accepted"}
  ELSE
  LET pool == PoolOf(o.pool)
      venv == EnvOfRec(rec)
      ver == VerifyBC(o.code, pool)
      \* the specification's machine on the implementation's bytecode
      m == IF ver = {} THEN VMOutcome([code |-> o.code, pool |-> pool], venv) ELSE [st |-> "unverified"]
      spec == CompileBC(run.e, FunsOfRec(rec))
      r == run.r
      ro == o.run
      judged == ver = {} /\ m.st \in {"ok", "fail"}
  IN \* C11 on the real bytes
     {"verify_" \o w : w \in ver}
     \* C03: the recorded steps are the machine's steps on that bytecode
     \cup (IF judged /\ o.trace # m.trace THEN {"steps"} ELSE {})
     \cup (IF judged /\ m.st = "ok" /\ ~(ro.class = "value" /\ NormVal(ro.v) = NormVal(ProjV(m.out.v))) THEN {"vmvalue"} ELSE {})
     \cup (IF judged /\ m.st = "fail" /\ ~(ro.class = "fail" /\ ro.kind \in KindsOf(m.out.why)) THEN {"vmfail"} ELSE {})
     \cup (IF judged /\ ro.class \in {"value", "fail"} /\ LogN(ro.log) # LogP(m.log) THEN {"vmlog"} ELSE {})
     \cup (IF ver = {} /\ m.st = "stuck" THEN {"vmstuck"} ELSE {})
     \* ... and the machine on that bytecode computes what the source program means
     \cup (IF judged /\ r.st \in {"ok", "fail"} /\ m.st # r.st THEN {"refines"} ELSE {})
     \cup (IF judged /\ r.st = "ok" /\ m.st = "ok" /\ m.out.v # r.v THEN {"refines"} ELSE {})
     \cup (IF judged /\ r.st \in {"ok", "fail"} /\ m.log # r.log THEN {"refineslog"} ELSE {})
     \* C11 corollary on the observed run: no offset of a body is executed twice within one activation
     \cup (IF \E i, j \in 1..Len(o.trace) : i < j /\ o.trace[i].b = o.trace[j].b /\ o.trace[i].pc = o.trace[j].pc
                 /\ ~\E k \in (i + 1)..j : o.trace[k].b = o.trace[i].b /\ o.trace[k].pc = 0
           THEN {"loops"} ELSE {})
     \* diagnostic only (never a verdict): is the encoding byte-identical to the specification's scheme?
     \cup (IF spec.ok /\ (spec.code # o.code) THEN {"diag_bytes"} ELSE {})

Skip(rec) == IF "big" \in DOMAIN rec THEN "" ELSE LET run == RunOfRec(rec) IN IF run.acc /\ run.r.st = "ood" THEN "ood" ELSE ""

Init == st \in {[c |-> c, l |-> ChunkLo(c, N)] : c \in 1..NChunks}
Next == /\ st.l <= ChunkHi(st.c, N)
        /\ EmitVerdict(Obs[st.l].id, Judge(Obs[st.l]), Skip(Obs[st.l]))
        /\ st' = [st EXCEPT !.l = @ + 1]
=============================================================================
