package main

// The user-function catalogue: host functions known to both the specification
// (YaeEval!UserFns) and this harness.  Every invocation is appended to callLog
// (function id + projected arguments): the host-call log of C03 / C06.

import (
	"github.com/goghcrow/yae/types"
	"github.com/goghcrow/yae/val"
)

var callLog A

func logCall(id string, args []*val.Val) {
	if quietLog { // concurrent families: no shared log
		return
	}
	as := A{}
	for _, a := range args {
		as = append(as, valJ(a))
	}
	callLog = append(callLog, J{"f": id, "args": as})
}

func objAB() *types.Type {
	return types.Obj([]types.Field{{Name: "a", Val: types.Num}, {Name: "b", Val: types.Str}})
}

func force(v *val.Val) *val.Val { return v.Fun().Call() }

var userFuns = map[string]func() *val.Val{
	"U_T": func() *val.Val {
		a := types.TyVar("a")
		return val.Fun(types.Fun("t", []*types.Type{types.Num, a}, a), func(args ...*val.Val) *val.Val {
			logCall("U_T", args)
			return args[1]
		})
	},
	"U_ID": func() *val.Val {
		a := types.TyVar("a")
		return val.Fun(types.Fun("id", []*types.Type{a}, a), func(args ...*val.Val) *val.Val {
			logCall("U_ID", args)
			return args[0]
		})
	},
	"U_PICK": func() *val.Val {
		a := types.TyVar("a")
		return val.Fun(types.Fun("pick", []*types.Type{a, a}, a), func(args ...*val.Val) *val.Val {
			logCall("U_PICK", args)
			return args[0]
		})
	},
	"U_H": func() *val.Val {
		return val.Fun(types.Fun("h", []*types.Type{objAB()}, types.Num), func(args ...*val.Val) *val.Val {
			logCall("U_H", args)
			v, _ := args[0].Obj().Get("a")
			return v
		})
	},
	"U_HN": func() *val.Val {
		outer := types.Obj([]types.Field{{Name: "o", Val: objAB()}})
		return val.Fun(types.Fun("hn", []*types.Type{outer}, types.Num), func(args ...*val.Val) *val.Val {
			logCall("U_HN", args)
			o, _ := args[0].Obj().Get("o")
			v, _ := o.Obj().Get("a")
			return v
		})
	},
	"U_HNP": func() *val.Val {
		a := types.TyVar("a")
		return val.Fun(types.Fun("hn", []*types.Type{a}, types.Str), func(args ...*val.Val) *val.Val {
			logCall("U_HNP", args)
			return val.Str("P")
		})
	},
	"U_F": func() *val.Val {
		ln := types.List(types.Num)
		return val.Fun(types.Fun("f", []*types.Type{ln, ln}, types.Num), func(args ...*val.Val) *val.Val {
			logCall("U_F", args)
			return val.Num(float64(len(args[0].List().V) + len(args[1].List().V)))
		})
	},
	"U_LIF": func() *val.Val {
		a := types.TyVar("a")
		return val.LazyFun(types.Fun("lif", []*types.Type{types.Bool, a, a}, a), func(args ...*val.Val) *val.Val {
			logCall("U_LIF", nil)
			if force(args[0]).Bool().V {
				return force(args[1])
			}
			return force(args[2])
		})
	},
	"U_TWICE": func() *val.Val {
		a := types.TyVar("a")
		return val.LazyFun(types.Fun("twice", []*types.Type{a}, a), func(args ...*val.Val) *val.Val {
			logCall("U_TWICE", nil)
			force(args[0])
			return force(args[0])
		})
	},
	"U_NEVER": func() *val.Val {
		a := types.TyVar("a")
		return val.LazyFun(types.Fun("never", []*types.Type{a}, types.Num), func(args ...*val.Val) *val.Val {
			logCall("U_NEVER", nil)
			return val.Num(0)
		})
	},
	"U_SECOND": func() *val.Val {
		a := types.TyVar("a")
		return val.LazyFun(types.Fun("second", []*types.Type{a, a}, a), func(args ...*val.Val) *val.Val {
			logCall("U_SECOND", nil)
			return force(args[1])
		})
	},
	"U_AND": func() *val.Val {
		return val.LazyFun(types.Fun("and", []*types.Type{types.Bool, types.Bool}, types.Bool), func(args ...*val.Val) *val.Val {
			logCall("U_AND", nil)
			if force(args[0]).Bool().V {
				return force(args[1])
			}
			return val.False
		})
	},
	"U_OR": func() *val.Val {
		return val.LazyFun(types.Fun("or", []*types.Type{types.Bool, types.Bool}, types.Bool), func(args ...*val.Val) *val.Val {
			logCall("U_OR", nil)
			if force(args[0]).Bool().V {
				return val.True
			}
			return force(args[1])
		})
	},
	"U_NOT": func() *val.Val {
		return val.Fun(types.Fun("not", []*types.Type{types.Bool}, types.Bool), func(args ...*val.Val) *val.Val {
			logCall("U_NOT", args)
			return val.Bool(!args[0].Bool().V)
		})
	},
	// keeps its argument slice alive in the result, as the built-in set functions do
	"U_PAIR": func() *val.Val {
		ln := types.List(types.Num)
		return val.Fun(types.Fun("pair", []*types.Type{types.Num, types.Num}, ln), func(args ...*val.Val) *val.Val {
			logCall("U_PAIR", args)
			l := val.List(ln.List(), 0).List()
			l.V = args
			return l.Vl()
		})
	},
	"U_GPOLY": func() *val.Val {
		a := types.TyVar("a")
		return val.Fun(types.Fun("g", []*types.Type{a}, types.Num), func(args ...*val.Val) *val.Val {
			logCall("U_GPOLY", args)
			return val.Num(1)
		})
	},
	"U_GLIST": func() *val.Val {
		a := types.TyVar("a")
		return val.Fun(types.Fun("g", []*types.Type{types.List(a)}, types.Str), func(args ...*val.Val) *val.Val {
			logCall("U_GLIST", args)
			return val.Str("L")
		})
	},
	"U_GNUM": func() *val.Val {
		return val.Fun(types.Fun("g", []*types.Type{types.Num}, types.Num), func(args ...*val.Val) *val.Val {
			logCall("U_GNUM", args)
			return val.Num(3)
		})
	},
}

// function values that live in environments (dynamic calls)
var funValues = map[string]func() *val.Val{
	"U_INC": func() *val.Val {
		return val.Fun(types.Fun("tl", []*types.Type{types.Num}, types.Num), func(args ...*val.Val) *val.Val {
			logCall("U_INC", args)
			return val.Num(args[0].Num().V + 1)
		})
	},
}
