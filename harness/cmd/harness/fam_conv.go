package main

// family "conv" (C15, C16): Go values built by reflection from descriptors are
// converted by conv.ValOf / conv.TypeOf; for pairs of values of one Go type an
// expression is compiled against the first and invoked with the second.

import (
	"fmt"
	"reflect"
	"time"

	"github.com/goghcrow/yae"
	"github.com/goghcrow/yae/conv"
	"github.com/goghcrow/yae/types"
	"github.com/goghcrow/yae/val"
)

func init() {
	families["conv"] = &Family{Run: runConv}
}

var goScalarTypes = map[string]reflect.Type{
	"int": reflect.TypeOf(int(0)), "int8": reflect.TypeOf(int8(0)), "int16": reflect.TypeOf(int16(0)),
	"int32": reflect.TypeOf(int32(0)), "int64": reflect.TypeOf(int64(0)), "uint": reflect.TypeOf(uint(0)),
	"uint8": reflect.TypeOf(uint8(0)), "uint16": reflect.TypeOf(uint16(0)), "uint32": reflect.TypeOf(uint32(0)),
	"uint64": reflect.TypeOf(uint64(0)), "float32": reflect.TypeOf(float32(0)), "float64": reflect.TypeOf(float64(0)),
	"bool": reflect.TypeOf(true), "string": reflect.TypeOf(""), "time": reflect.TypeOf(time.Time{}),
	"iface": reflect.TypeOf((*interface{})(nil)).Elem(), "chan": reflect.TypeOf(make(chan int)), "func": reflect.TypeOf(func() {}),
}

func goTypeFromJ(t J) reflect.Type {
	g := t["g"].(string)
	if rt, ok := goScalarTypes[g]; ok {
		return rt
	}
	switch g {
	case "ptr":
		return reflect.PtrTo(goTypeFromJ(obj(t["to"])))
	case "slice":
		return reflect.SliceOf(goTypeFromJ(obj(t["el"])))
	case "array":
		return reflect.ArrayOf(toInt(t["n"]), goTypeFromJ(obj(t["el"])))
	case "map":
		return reflect.MapOf(goTypeFromJ(obj(t["key"])), goTypeFromJ(obj(t["el"])))
	case "struct":
		fs := []reflect.StructField{}
		for _, f := range arr(t["fs"]) {
			fj := obj(f)
			sf := reflect.StructField{Name: str(fj["name"]), Type: goTypeFromJ(obj(fj["t"]))}
			if tag := str(fj["tag"]); tag != "" {
				sf.Tag = reflect.StructTag(`yae:"` + tag + `"`)
			}
			fs = append(fs, sf)
		}
		return reflect.StructOf(fs)
	}
	panic("goTypeFromJ: " + g)
}

func goValueFromJ(v J) reflect.Value {
	t := obj(v["t"])
	rt := goTypeFromJ(t)
	out := reflect.New(rt).Elem()
	switch g := t["g"].(string); g {
	case "int", "int8", "int16", "int32", "int64":
		f := numFromJ(obj(v["n"]))
		out.SetInt(int64(f))
		if float64(out.Int()) != f {
			panic(fmt.Sprintf("%v does not fit %s", f, g))
		}
	case "uint", "uint8", "uint16", "uint32", "uint64":
		f := numFromJ(obj(v["n"]))
		out.SetUint(uint64(f))
		if float64(out.Uint()) != f {
			panic(fmt.Sprintf("%v does not fit %s", f, g))
		}
	case "float32", "float64":
		f := numFromJ(obj(v["n"]))
		out.SetFloat(f)
		if out.Float() != f {
			panic(fmt.Sprintf("%v is not exact in %s", f, g))
		}
	case "bool":
		out.SetBool(boolv(v["b"]))
	case "string":
		out.SetString(str(v["s"]))
	case "time":
		tm := time.Unix(int64(toInt(v["sec"])), 0)
		if z := toInt(v["zone"]); z != 0 {
			tm = tm.In(time.FixedZone(fmt.Sprintf("Z%+d", z), z))
		}
		out.Set(reflect.ValueOf(tm))
	case "ptr":
		if !boolv(v["nil"]) {
			p := reflect.New(rt.Elem())
			p.Elem().Set(goValueFromJ(obj(v["to"])))
			out.Set(p)
		}
	case "slice":
		if !boolv(v["nil"]) {
			els := arr(v["els"])
			s := reflect.MakeSlice(rt, len(els), len(els))
			for i, e := range els {
				s.Index(i).Set(goValueFromJ(obj(e)))
			}
			out.Set(s)
		}
	case "array":
		for i, e := range arr(v["els"]) {
			out.Index(i).Set(goValueFromJ(obj(e)))
		}
	case "map":
		if !boolv(v["nil"]) {
			m := reflect.MakeMap(rt)
			for _, e := range arr(v["ents"]) {
				m.SetMapIndex(goValueFromJ(obj(obj(e)["key"])), goValueFromJ(obj(obj(e)["val"])))
			}
			out.Set(m)
		}
	case "struct":
		for i, f := range arr(v["fs"]) {
			out.Field(i).Set(goValueFromJ(obj(f)))
		}
	case "iface":
		if !boolv(v["nil"]) {
			out.Set(goValueFromJ(obj(v["dyn"])))
		}
	case "chan":
		out.Set(reflect.MakeChan(rt, 0))
	case "func":
		out.Set(reflect.ValueOf(func() {}))
	}
	return out
}

func ifaceOf(v J) interface{} {
	rv := goValueFromJ(v)
	if rv.Kind() == reflect.Interface && rv.IsNil() {
		return nil
	}
	return rv.Interface()
}

func convObs(g interface{}) J {
	o := J{}
	var vl *val.Val
	var err error
	var pan interface{}
	func() {
		defer func() { pan = recover() }()
		vl, err = conv.ValOf(g)
	}()
	switch {
	case pan != nil:
		o["valof"] = J{"class": "panic", "v": J{"k": "nil"}, "msg": clip(fmt.Sprint(pan), 100)}
	case err != nil:
		o["valof"] = J{"class": "error", "v": J{"k": "nil"}, "msg": clip(err.Error(), 100)}
	default:
		o["valof"] = J{"class": "value", "v": valJ(vl)}
	}
	var ty *types.Type
	pan = nil
	func() {
		defer func() { pan = recover() }()
		ty, err = conv.TypeOf(g)
	}()
	switch {
	case pan != nil:
		o["typeof"] = J{"class": "panic", "t": J{"k": "none"}}
	case err != nil:
		o["typeof"] = J{"class": "error", "t": J{"k": "none"}}
	default:
		o["typeof"] = J{"class": "value", "t": typeJ(ty)}
	}
	return o
}

func runConv(c J) J {
	obs := J{"a": convObs(ifaceOf(obj(c["a"])))}
	if b, ok := c["b"]; ok {
		obs["b"] = convObs(ifaceOf(obj(b)))
		// an expression compiled against sample a is invoked with sample b (both are environments)
		src := "1"
		if s, ok := c["src"]; ok {
			src = str(s)
		}
		pair := J{"compile": "none", "invoke": "none", "warm": "none"}
		var callable yae.Callable
		var err error
		var pan interface{}
		func() {
			defer func() { pan = recover() }()
			callable, err = yae.NewExpr().Compile(src, ifaceOf(obj(c["a"])))
		}()
		switch {
		case pan != nil:
			pair["compile"] = "panic"
		case err != nil:
			pair["compile"] = "error"
		default:
			pair["compile"] = "ok"
			o := invoke(func() (*val.Val, error) { return callable(ifaceOf(obj(b))) })
			switch {
			case o.pan != nil:
				pair["invoke"] = "panic"
			case o.err != nil:
				pair["invoke"] = "error"
				pair["msg"] = clip(o.err.Error(), 100)
			default:
				pair["invoke"] = "value"
			}
			// a fresh callable, first used with the compile-time sample itself, then with b
			if c2, err2 := yae.NewExpr().Compile(src, ifaceOf(obj(c["a"]))); err2 == nil {
				_ = invoke(func() (*val.Val, error) { return c2(ifaceOf(obj(c["a"]))) })
				_ = invoke(func() (*val.Val, error) { return c2(ifaceOf(obj(c["a"]))) })
				o2 := invoke(func() (*val.Val, error) { return c2(ifaceOf(obj(b))) })
				switch {
				case o2.pan != nil:
					pair["warm"] = "panic"
				case o2.err != nil:
					pair["warm"] = "error"
				default:
					pair["warm"] = "value"
				}
			}
		}
		// a later compilation against b itself (same Go type, possibly another yae type) and its invocation with b:
		// what was learnt from a must not leak into it
		pair["second"] = "none"
		if c3, err3 := yae.NewExpr().Compile(src, ifaceOf(obj(b))); err3 == nil {
			o3 := invoke(func() (*val.Val, error) { return c3(ifaceOf(obj(b))) })
			switch {
			case o3.pan != nil:
				pair["second"] = "panic"
			case o3.err != nil:
				pair["second"] = "error"
			default:
				pair["second"] = "value"
			}
		} else {
			pair["second"] = "reject"
		}
		obs["pair"] = pair
	}
	return obs
}
