---------------------------- MODULE YaeUniverse ----------------------------
(***************************************************************************)
(* Bounded universes of programs and environments for Mode A / Mode B:     *)
(* tree constructors, the standard environments, leaf sets and the         *)
(* vocabularies of function names.  Programs are bounded by the number of  *)
(* operator nodes (non-leaf nodes), not by depth.                          *)
(***************************************************************************)
EXTENDS YaeEval

(* ---- tree constructors (core forms) ---- *)
ENum(n) == [k |-> "num", v |-> n]
EInt(i) == ENum(NInt(i))
EStr(s) == [k |-> "str", v |-> s]
EBool(b) == [k |-> "bool", v |-> b]
ETime(t) == [k |-> "time", v |-> t]
EId(n) == [k |-> "id", n |-> n]
EList(els) == [k |-> "list", els |-> els]
EMap(ps) == [k |-> "map", ps |-> ps]
EPair(a, b) == [key |-> a, val |-> b]
EObj(fs) == [k |-> "obj", fs |-> fs]
EFld(n, v) == [n |-> n, v |-> v]
ECall(f, args) == [k |-> "call", f |-> EId(f), args |-> args]
EDyn(callee, args) == [k |-> "call", f |-> callee, args |-> args]
ESub(x, i) == [k |-> "sub", x |-> x, i |-> i]
EMem(x, n) == [k |-> "mem", x |-> x, n |-> n]

(* ---- input-shape values (map entries as [key, val] pairs) ---- *)
IList(ty, els) == [k |-> "list", ty |-> ty, els |-> els]
IMap(ty, ents) == [k |-> "map", ty |-> ty, ents |-> ents]
IObj(ty, vals) == [k |-> "obj", ty |-> ty, vals |-> vals]
IEnt(a, b) == [key |-> a, val |-> b]
Half(n) == Fin(n, 1, 0)
TOab == TObj(<<Fld(N_a, TNum), Fld(N_b, TStr)>>)
TOba == TObj(<<Fld(N_b, TStr), Fld(N_a, TNum)>>)
BindV(n, v) == [n |-> n, v |-> v]

\* The standard environment.  ob / oba have the same structural type in two field
\* orders; os is a list whose elements are laid out in their own (mixed) orders --
\* all of it reachable from host data, all of it conforming.
EnvIds == <<"E1", "E1a", "E1b", "E1c", "E1d", "E0">>
StdEnvIn(id) ==
  CASE id \in {"E1", "E1a", "E1b", "E1c", "E1d", "E0"} -> <<
      BindV(N_eacute, VNum(NInt(5))),
      BindV(N_n, VNum(NInt(3))), BindV(N_p, VNum(Half(5))), BindV(N_z, VNum(Zero)), BindV(N_q, VNum(NInt(-1))),
      BindV(N_s, VStr(<<97, 98>>)), BindV(N_u, VStr(<<233, 26195>>)), BindV(N_w, VStr(<<>>)),
      BindV(N_b, VBool(TRUE)), BindV(N_c, VBool(FALSE)),
      BindV(N_tm, VTime(86400)), BindV(N_d, VTime(90000)),
      BindV(N_tf, [k |-> "time", v |-> 86400, ns |-> 250000000]), BindV(N_tg, [k |-> "time", v |-> 86401, ns |-> 750000000]),
      BindV(N_xs, IList(TList(TNum), <<VNum(NInt(1)), VNum(NInt(2)), VNum(NInt(3))>>)),
      BindV(N_ys, IList(TList(TNum), <<>>)),
      BindV(N_ss, IList(TList(TStr), <<VStr(<<97>>), VStr(<<98>>), VStr(<<97>>)>>)),
      BindV(N_m, IMap(TMap(TStr, TNum), <<IEnt(VStr(<<97>>), VNum(NInt(1))), IEnt(VStr(<<98>>), VNum(NInt(2)))>>)),
      BindV(N_mm, IMap(TMap(TNum, TStr), <<IEnt(VNum(NInt(1)), VStr(<<120>>)), IEnt(VNum(Half(5)), VStr(<<121>>))>>)),
      BindV(N_me, IMap(TMap(TStr, TNum), <<>>)),
      BindV(N_ob, IObj(TOab, <<VNum(NInt(1)), VStr(<<120>>)>>)),
      BindV(N_oba, IObj(TOba, <<VStr(<<121>>), VNum(NInt(2))>>)),
      \* a value laid out in one field order under a DECLARED type that lists the fields in the other (an equal type:
      \* such an environment conforms); dt is what the harness puts into the type environment
      [n |-> N_obx, v |-> IObj(TOba, <<VStr(<<122>>), VNum(NInt(8))>>), dt |-> TOab],
      BindV(N_os, IList(TList(TOab), <<IObj(TOab, <<VNum(NInt(1)), VStr(<<120>>)>>), IObj(TOba, <<VStr(<<121>>), VNum(NInt(2))>>)>>)),
      BindV(N_oc, IObj(TObj(<<Fld(N_a, TNum)>>), <<VNum(NInt(5))>>)),
      BindV(N_od, IObj(TObj(<<Fld(N_a, TNum), Fld(N_b, TStr), Fld(N_c, TBool)>>), <<VNum(NInt(1)), VStr(<<120>>), VBool(TRUE)>>)),
      BindV(N_mx, VNothing(TNum)), BindV(N_mj, VJust(TNum, VNum(NInt(7)))), BindV(N_ms, VJust(TStr, VStr(<<113>>))),
      BindV(N_lo, IList(TList(TMaybe(TNum)), <<VJust(TNum, VNum(NInt(1))), VNothing(TNum)>>)),
      BindV(N_oo, IObj(TObj(<<Fld(N_a, TMaybe(TNum)), Fld(N_b, TStr)>>), <<VNothing(TNum), VStr(<<120>>)>>)),
      \* two object types with the same field names whose field types agree by POSITION but not by name
      BindV(N_op, IObj(TObj(<<Fld(N_b, TNum), Fld(N_a, TMaybe(TNum))>>), <<VNum(NInt(1)), VNothing(TNum)>>)),
      BindV(N_oq, IObj(TObj(<<Fld(N_a, TNum), Fld(N_b, TMaybe(TNum))>>), <<VNum(NInt(2)), VNothing(TNum)>>)),
      BindV(N_fs, IList(TList(TIncTy), <<VFunV(TIncTy, "U_INC")>>))
    >>
    [] OTHER -> <<>>

\* user functions registered before the first compilation (they precede the built-ins) and
\* after it; the E1a..E1d variants register three overloads of g in different orders:
\*    g :: a -> num (=1)   g :: list[a] -> str (="L")   g :: num -> num (=3, monomorphic)
BasePre == <<"U_T", "U_ID", "U_PICK", "U_H", "U_F", "U_LIF", "U_TWICE", "U_NEVER", "U_SECOND", "U_PAIR", "U_HNP", "U_HN">>
StdPre(id) == CASE id = "E1" -> BasePre
                [] id = "E1a" -> BasePre \o <<"U_GPOLY", "U_GLIST", "U_GNUM">>
                [] id = "E1b" -> BasePre \o <<"U_GLIST", "U_GPOLY">>
                [] id = "E1c" -> BasePre \o <<"U_GNUM", "U_GLIST">>
                [] id = "E1d" -> BasePre
                [] OTHER -> <<>>          \* E0: the standard values, built-in functions only
StdPost(id) == CASE id = "E1c" -> <<"U_GPOLY">>
                 [] id = "E1d" -> <<"U_GLIST", "U_GPOLY", "U_GNUM">>
                 [] OTHER -> <<>>
\* the property speaks about numbers that are identical or differ by more than the comparison tolerance
LitNum(e) == IF e.k = "num" THEN e.v
             ELSE IF e.k = "call" /\ e.f.k = "id" /\ e.f.n = N_minus /\ Len(e.args) = 1 /\ e.args[1].k = "num" THEN NumNeg(e.args[1].v)
             ELSE [k |-> "none"]
InBandPair(e) == e.k = "list" /\ Len(e.els) >= 5 /\ e.els[1].k = "call" /\ Len(e.els[1].args) = 2
                 /\ e.els[1].args[1].k = "list" /\ e.els[1].args[2].k = "list"
                 /\ Len(e.els[1].args[1].els) = 1 /\ Len(e.els[1].args[2].els) = 1
                 /\ LET x == LitNum(e.els[1].args[1].els[1]) y == LitNum(e.els[1].args[2].els[1]) IN
                    x.k # "none" /\ y.k # "none" /\ x # y /\ Near(x, y) # "no"
\* a universe element is a tree (standard environment E1) or a tree with its environment id
InEnvId(e, id) == [e |-> e, envid |-> id]

(* Universes are SEQUENCES of trees, never sets: TLC normalises sets by comparing
   their elements, and trees of different kinds are not comparable (a number
   literal's payload is a record, a string literal's a sequence).            *)
Prod2(L1, L2, Mk(_, _)) ==
  [k \in 1..(Len(L1) * Len(L2)) |-> Mk(L1[((k - 1) \div Len(L2)) + 1], L2[((k - 1) % Len(L2)) + 1])]
Prod3(L1, L2, L3, Mk(_, _, _)) ==
  [k \in 1..(Len(L1) * Len(L2) * Len(L3)) |->
     Mk(L1[((k - 1) \div (Len(L2) * Len(L3))) + 1], L2[(((k - 1) \div Len(L3)) % Len(L2)) + 1], L3[((k - 1) % Len(L3)) + 1])]
Map1(L, Mk(_)) == [i \in 1..Len(L) |-> Mk(L[i])]

\* leaf expressions: variables of the standard environment and literals
VarLeaves(names) == [i \in 1..Len(names) |-> EId(names[i])]
LitLeaves == <<EInt(0), EInt(1), EInt(2), ENum(Half(1)), EStr(<<97>>), EStr(<<>>), EBool(TRUE), EBool(FALSE),
               EList(<<>>), EMap(<<>>)>>
LeavesSmall == VarLeaves(<<N_n, N_p, N_s, N_b, N_tm, N_xs, N_m, N_ob, N_oba, N_oc, N_os, N_mx, N_mj>>)
                 \o <<EInt(1), EStr(<<97>>), EList(<<>>)>>
LeavesFull == VarLeaves(<<N_n, N_p, N_z, N_q, N_s, N_u, N_w, N_b, N_c, N_tm, N_d, N_xs, N_ys, N_ss, N_m, N_mm,
                          N_ob, N_oba, N_oc, N_od, N_os, N_mx, N_mj, N_ms, N_lo, N_oo, N_fs>>) \o LitLeaves

\* vocabularies by arity (names, not overloads: the checker resolves them)
Names1 == <<N_plus, N_minus, N_bang, N_abs, N_ceil, N_floor, N_round, N_len, N_max, N_min, N_string, N_print,
            N_id, N_twice, N_never>>
Names2 == <<N_plus, N_minus, N_star, N_slash, N_percent, N_caret, N_gt, N_ge, N_lt, N_le, N_eqeq, N_ne,
            N_andand, N_oror, N_max, N_min, N_match, N_union, N_intersect, N_diff, N_isset, N_get, N_pick, N_t,
            N_second, N_f>>
Names3 == <<N_if, N_get, N_lif>>
FieldPool == <<N_a, N_b, N_c>>
FieldPairs == <<<<N_a, N_b>>, <<N_b, N_a>>, <<N_a, N_a>>>>

\* every tree with exactly one operator node over the leaf sequence L
Calls1f(f, L) == Map1(L, LAMBDA a : ECall(f, <<a>>))
Calls2f(f, L1, L2) == Prod2(L1, L2, LAMBDA a, b : ECall(f, <<a, b>>))
Calls3f(f, L1, L2, L3) == Prod3(L1, L2, L3, LAMBDA a, b, c : ECall(f, <<a, b, c>>))
Lits1(L) == Map1(L, LAMBDA a : EList(<<a>>)) \o Prod2(L, L, LAMBDA a, b : EList(<<a, b>>))
              \o Prod2(L, L, LAMBDA a, b : EMap(<<EPair(a, b)>>))
              \o Prod2(FieldPool, L, LAMBDA n, a : EObj(<<EFld(n, a)>>))
              \o Prod3(FieldPairs, L, L, LAMBDA nm, a, b : EObj(<<EFld(nm[1], a), EFld(nm[2], b)>>))
Access1(L) == Prod2(L, L, LAMBDA a, b : ESub(a, b)) \o Prod2(L, FieldPool, LAMBDA a, n : EMem(a, n))
                \o Map1(L, LAMBDA a : EDyn(ESub(EId(N_fs), EInt(0)), <<a>>))
=============================================================================
