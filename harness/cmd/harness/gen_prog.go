package main

// Seeded, type-directed generation of core programs over the standard
// environment E1 (YaeUniverse!StdEnvIn) and its user functions: programs far
// deeper than the universes TLC enumerates.  The harness only produces the
// trees; what each must evaluate to is decided by the specification when TLC
// validates the recorded observations (Trace_Eval / Trace_VM).  Numbers are kept
// small integers and halves so that most programs stay in the exact domain
// (records that leave it are reported as not judged, never as violations).

import (
	"math/rand"
)

type gty int

const (
	gNum gty = iota
	gStr
	gBool
	gTime
	gListNum
	gListStr
	gMapSN
	gObj
	gMaybeNum
	gNTypes
)

type pgen struct {
	rng *rand.Rand
}

func idJ(n string) J { return J{"k": "id", "n": cps(n)} }
func callJ(f string, a ...J) J {
	as := A{}
	for _, x := range a {
		as = append(as, x)
	}
	return J{"k": "call", "f": idJ(f), "args": as}
}
func numLitJ(f float64) J { return J{"k": "num", "v": numJ(f)} }
func strLitJ(s string) J  { return J{"k": "str", "v": cps(s)} }
func boolLitJ(b bool) J   { return J{"k": "bool", "v": b} }
func listJ(els ...J) J {
	as := A{}
	for _, x := range els {
		as = append(as, x)
	}
	return J{"k": "list", "els": as}
}
func subJ(x, i J) J        { return J{"k": "sub", "x": x, "i": i} }
func memJ(x J, n string) J { return J{"k": "mem", "x": x, "n": cps(n)} }
func objJ2(n1 string, v1 J, n2 string, v2 J) J {
	return J{"k": "obj", "fs": A{J{"n": cps(n1), "v": v1}, J{"n": cps(n2), "v": v2}}}
}
func mapJ(kv ...J) J {
	ps := A{}
	for i := 0; i+1 < len(kv); i += 2 {
		ps = append(ps, J{"key": kv[i], "val": kv[i+1]})
	}
	return J{"k": "map", "ps": ps}
}

func (g *pgen) pick(xs ...string) string { return xs[g.rng.Intn(len(xs))] }

func (g *pgen) leaf(t gty) J {
	switch t {
	case gNum:
		switch g.rng.Intn(4) {
		case 0:
			return numLitJ(float64(g.rng.Intn(7)))
		case 1:
			return numLitJ(float64(g.rng.Intn(9)) / 2)
		default:
			return idJ(g.pick("n", "p", "z", "q", "n"))
		}
	case gStr:
		if g.rng.Intn(3) == 0 {
			return strLitJ(g.pick("", "a", "ab", "é晓", "x y", "a\"b"))
		}
		return idJ(g.pick("s", "u", "w"))
	case gBool:
		if g.rng.Intn(3) == 0 {
			return boolLitJ(g.rng.Intn(2) == 0)
		}
		return idJ(g.pick("b", "c"))
	case gTime:
		return idJ(g.pick("tm", "d"))
	case gListNum:
		switch g.rng.Intn(12) {
		case 0, 1, 2:
			return listJ(numLitJ(float64(g.rng.Intn(4))), numLitJ(float64(g.rng.Intn(4))))
		case 3:
			return listJ() // the empty literal: list[bottom] -- accepted only where the rules say so
		}
		return idJ(g.pick("xs", "ys", "xs"))
	case gListStr:
		return idJ("ss")
	case gMapSN:
		if g.rng.Intn(8) == 0 {
			return mapJ()
		}
		return idJ("m")
	case gObj:
		return idJ(g.pick("ob", "oba"))
	case gMaybeNum:
		return idJ(g.pick("mx", "mj"))
	}
	panic("leaf")
}

// gen produces a tree of the requested type (by construction well typed, up to the deliberate mutations)
func (g *pgen) gen(t gty, d int) J {
	if d <= 0 || g.rng.Intn(6) == 0 {
		return g.leaf(t)
	}
	d--
	r := g.rng.Intn
	switch t {
	case gNum:
		switch r(24) {
		case 0, 1:
			return callJ("+", g.gen(gNum, d), g.gen(gNum, d))
		case 2:
			return callJ("-", g.gen(gNum, d), g.gen(gNum, d))
		case 3:
			return callJ("*", g.gen(gNum, d), g.leaf(gNum))
		case 4:
			return callJ("len", g.gen(gty(4+r(3)), d)) // list[num] | list[str] | map
		case 5:
			return callJ("len", g.gen(gStr, d))
		case 6:
			return subJ(g.gen(gListNum, d), numLitJ(float64(r(4))))
		case 7:
			return memJ(g.gen(gObj, d), "a")
		case 8:
			return callJ("if", g.gen(gBool, d), g.gen(gNum, d), g.gen(gNum, d))
		case 9:
			return callJ("get", g.gen(gMaybeNum, d), g.gen(gNum, d))
		case 10:
			return subJ(g.gen(gMapSN, d), strLitJ(g.pick("a", "b", "a", "zz")))
		case 11:
			return callJ(g.pick("abs", "floor", "ceil", "round"), g.gen(gNum, d))
		case 12:
			return callJ(g.pick("max", "min"), g.gen(gNum, d), g.gen(gNum, d))
		case 13:
			return callJ("t", numLitJ(float64(r(9))), g.gen(gNum, d))
		case 14:
			return callJ(g.pick("id", "twice"), g.gen(gNum, d))
		case 15:
			return callJ(g.pick("pick", "second"), g.gen(gNum, d), g.gen(gNum, d))
		case 16:
			return callJ("lif", g.gen(gBool, d), g.gen(gNum, d), g.gen(gNum, d))
		case 17:
			return callJ("f", g.gen(gListNum, d), g.gen(gListNum, d))
		case 18:
			return callJ("h", g.gen(gObj, d))
		case 19:
			return callJ("-", g.gen(gNum, d))
		case 20:
			return callJ("%", g.gen(gNum, d), numLitJ(float64(r(4))))
		case 21:
			return callJ("get", g.gen(gListNum, d), g.gen(gNum, d), g.gen(gNum, d))
		case 22:
			return callJ("never", g.gen(gty(r(int(gNTypes))), d))
		default:
			return callJ(g.pick("max", "min"), g.gen(gListNum, d))
		}
	case gStr:
		switch r(8) {
		case 0, 1:
			return callJ("+", g.gen(gStr, d), g.gen(gStr, d))
		case 2:
			return callJ("string", g.gen(gty(r(int(gNTypes))), d))
		case 3:
			return memJ(g.gen(gObj, d), "b")
		case 4:
			return subJ(g.gen(gListStr, d), numLitJ(float64(r(4))))
		case 5:
			return callJ("if", g.gen(gBool, d), g.gen(gStr, d), g.gen(gStr, d))
		case 6:
			return callJ(g.pick("id", "twice"), g.gen(gStr, d))
		default:
			return callJ("t", numLitJ(float64(r(9))), g.gen(gStr, d))
		}
	case gBool:
		switch r(10) {
		case 0, 1:
			return callJ(g.pick(">", ">=", "<", "<=", "==", "!="), g.gen(gNum, d), g.gen(gNum, d))
		case 2:
			return callJ(g.pick("==", "!="), g.gen(gStr, d), g.gen(gStr, d))
		case 3:
			return callJ(g.pick("&&", "||"), g.gen(gBool, d), g.gen(gBool, d))
		case 4:
			return callJ("!", g.gen(gBool, d))
		case 5:
			return callJ("isset", g.gen(gMapSN, d), g.gen(gStr, d))
		case 6:
			t2 := gty(4 + r(4)) // list[num] | list[str] | map | obj
			return callJ(g.pick("==", "!="), g.gen(t2, d), g.gen(t2, d))
		case 7:
			return callJ("lif", g.gen(gBool, d), g.gen(gBool, d), g.gen(gBool, d))
		case 8:
			return callJ("isset", g.gen(gMaybeNum, d))
		default:
			return callJ(g.pick(">", "<"), g.gen(gTime, d), g.gen(gTime, d))
		}
	case gTime:
		if r(2) == 0 {
			return callJ("if", g.gen(gBool, d), g.gen(gTime, d), g.gen(gTime, d))
		}
		return callJ("pick", g.gen(gTime, d), g.gen(gTime, d))
	case gListNum:
		switch r(7) {
		case 0:
			return listJ(g.gen(gNum, d), g.gen(gNum, d), g.gen(gNum, d))
		case 1, 2:
			return callJ(g.pick("union", "intersect", "diff"), g.gen(gListNum, d), g.gen(gListNum, d))
		case 3:
			return callJ("if", g.gen(gBool, d), g.gen(gListNum, d), g.gen(gListNum, d))
		case 4:
			return callJ(g.pick("id", "twice"), g.gen(gListNum, d))
		case 5:
			return callJ("pair", g.gen(gNum, d), g.gen(gNum, d))
		default:
			return listJ(g.gen(gNum, d))
		}
	case gListStr:
		switch r(3) {
		case 0:
			return listJ(g.gen(gStr, d), g.gen(gStr, d))
		case 1:
			return callJ("union", g.gen(gListStr, d), g.gen(gListStr, d))
		default:
			return callJ("second", g.gen(gListStr, d), g.gen(gListStr, d))
		}
	case gMapSN:
		switch r(3) {
		case 0:
			return mapJ(g.gen(gStr, d), g.gen(gNum, d), g.gen(gStr, d), g.gen(gNum, d))
		case 1:
			return callJ("if", g.gen(gBool, d), g.gen(gMapSN, d), g.gen(gMapSN, d))
		default:
			return mapJ(strLitJ(g.pick("a", "k")), g.gen(gNum, d))
		}
	case gObj:
		switch r(5) {
		case 0:
			return objJ2("a", g.gen(gNum, d), "b", g.gen(gStr, d))
		case 1:
			return objJ2("b", g.gen(gStr, d), "a", g.gen(gNum, d))
		case 2:
			return callJ("pick", g.gen(gObj, d), g.gen(gObj, d))
		case 3:
			return subJ(idJ("os"), numLitJ(float64(r(3))))
		default:
			return callJ("if", g.gen(gBool, d), g.gen(gObj, d), g.gen(gObj, d))
		}
	case gMaybeNum:
		switch r(4) {
		case 0:
			return subJ(idJ("lo"), numLitJ(float64(r(3))))
		case 1:
			return memJ(idJ("oo"), "a")
		case 2:
			return callJ("if", g.gen(gBool, d), g.gen(gMaybeNum, d), g.gen(gMaybeNum, d))
		default:
			return callJ("pick", g.gen(gMaybeNum, d), g.gen(gMaybeNum, d))
		}
	}
	panic("gen")
}

// mutate replaces one random subtree by a leaf of a random type: most mutants are ill typed
func (g *pgen) mutate(j J) J {
	if g.rng.Intn(3) == 0 {
		return g.leaf(gty(g.rng.Intn(int(gNTypes))))
	}
	switch j["k"] {
	case "call":
		args := arr(j["args"])
		if len(args) == 0 {
			return j
		}
		i := g.rng.Intn(len(args))
		na := append(A{}, args...)
		na[i] = g.mutate(obj(args[i]))
		return J{"k": "call", "f": j["f"], "args": na}
	case "list":
		els := arr(j["els"])
		if len(els) == 0 {
			return g.leaf(gNum)
		}
		i := g.rng.Intn(len(els))
		ne := append(A{}, els...)
		ne[i] = g.mutate(obj(els[i]))
		return J{"k": "list", "els": ne}
	case "sub":
		return J{"k": "sub", "x": g.mutate(obj(j["x"])), "i": j["i"]}
	case "mem":
		return J{"k": "mem", "x": g.mutate(obj(j["x"])), "n": j["n"]}
	}
	return g.leaf(gty(g.rng.Intn(int(gNTypes))))
}

// genProgs: mode "deep" = depth up to 5, otherwise up to 3; one in eight programs is a mutant
func genProgs(rng *rand.Rand, n int, mode string) []J {
	g := &pgen{rng}
	maxd := 3
	if mode == "deep" {
		maxd = 5
	}
	out := make([]J, 0, n)
	for i := 0; i < n; i++ {
		e := g.gen(gty(rng.Intn(int(gNTypes))), 1+rng.Intn(maxd))
		if rng.Intn(8) == 0 {
			e = g.mutate(e)
		}
		out = append(out, J{"fam": "eval", "e": e, "envid": "E1"})
	}
	return out
}
