package main

import "math/rand"

// genProgs: seeded type-directed generation of programs (explore mode) -- see gen_prog2.go
func genProgs(rng *rand.Rand, n int, mode string) []J { return nil }
