#!/bin/bash
# usage: sany.sh Module.tla  (run in spec dir)
exec java -cp /opt/veriftools/tla/tla2tools.jar:/opt/veriftools/tla/CommunityModules-deps.jar tla2sany.SANY "$@"
