module yaeverif/harness

go 1.21

require github.com/goghcrow/yae v0.0.0

replace github.com/goghcrow/yae => /repo
