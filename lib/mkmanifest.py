#!/usr/bin/env python3
"""regenerates /verif/MANIFEST.json from the table below (claimed properties) and properties.jsonl"""
import json, os, subprocess
ROOT = os.path.dirname(os.path.dirname(os.path.abspath(__file__)))
props = [json.loads(l) for l in open(os.path.join(ROOT, "properties.jsonl"))]

TLC_TRUST = "Trusted base: TLC's evaluator, the harness projections (Go data -> JSON) and the TLA+ transcription of the semantics (itself checked against the code by the same conformance runs)."
EVAL_TECH = "TLA+ spec (YaeTypes/YaeValues/YaeEval) model-checked with TLC over bounded program universes; TLC-generated programs replayed through the real pipeline on all four back ends; TLC trace validation of the recorded observations"

CLAIMS = {
 "C01": ("model_checking", "Preservation is an invariant of the specification (Gen_Eval: every state one program with the spec's own check + evaluation) over the object-layout, lazy, optional and 1-/2-operator universes; every enumerated program runs through the real pipeline on the four back ends and TLC judges the deep projection of each result (dynamic type of every nested component, no nil component) against the observed inferred type.", EVAL_TECH),
 "C02": ("model_checking", "Progress (never stuck; failures only index/key/mod0/regex and exactly when the semantics says) is an invariant of the specification and is judged by TLC on the recorded outcome class of every back end for edge indices, keys, moduli, patterns, guarded operations and the size families crossing the VM's 42-slot stack and 8-bit operand ranges.", EVAL_TECH),
 "C03": ("model_checking", "VM-refines-big-step (value, failure, host-call log) is an invariant of the specification's compilation scheme + machine over the program universes; on the code, every program is compiled by the real compiler and run with the per-instruction step hook: TLC replays the recorded instruction trace of the switch loop on the specification's machine over the implementation's own bytecode, and compares the outcomes and logs of all four back ends (switch VM, call-threaded VM, closure, interpreter) with the specification and each other.", "TLA+ spec of the compilation scheme and VM (YaeVM) + big-step semantics (YaeEval); TLC invariants; trace validation of recorded VM step traces and of four-back-end observations"),
 "C04": ("model_checking", "Every operator and built-in applied to argument pools (dyadic numbers, tolerance-edge offsets, exact big integers across 2^53 and 2^63, inf/nan, escaped and non-ASCII strings, times, lists and maps with duplicates): the specification's exact value is compared by TLC, element by element, with the value observed on each back end.", EVAL_TECH),
 "C05": ("model_checking", "All one-operator programs (well- and ill-typed) over the vocabulary, plus the focused universes: TLC compares observed acceptance (compile time, on every back end) and inferred type with the specification's transcription of the checker (exact mono overload first, else first registered poly overload that instantiates with a concrete result).", EVAL_TECH),
 "C06": ("model_checking", "Tracing host functions in every operand position and failing sub-expressions in every unselected position: TLC compares the ordered host-call log and outcome observed on each back end with the specification's (strict positions left to right once, lazy callees force only what they select).", EVAL_TECH),
 "C08": ("model_checking", "Precedence, associativity, fixity and non-chaining are invariants of the specification's transcription of the Pratt parser over a family of operator tables (every fixity x a grid of integer and fractional binding powers) and all short token strings; every case runs through the real lexer and parser and TLC compares acceptance, the tree, every node's span and debug column, and re-evaluates non-associativity on the observed tree.", "TLA+ transcription of the Pratt parser (YaeParser) with threaded eat counter; TLC invariants over operator-table families; trace validation of recorded trees and spans"),
 "C09": ("model_checking", "Token partition, exact positions, longest-operator, whole-word and ./? rules are invariants of the specification's rule-ordered lexer machine over all concatenations of atoms (operator characters, letters incl. non-ASCII, digits, quotes, white space, newlines, words) for six operator sets; every input is lexed by the real lexer and TLC compares the token sequence with positions and re-evaluates the declarative properties on the observed tokens.", "TLA+ lexer machine (YaeLexer: rule list, operator sort, literal automata, cursor) + declarative token properties; TLC exhaustive enumeration; trace validation of recorded tokens"),
 "C10": ("model_checking", "Core-only, idempotent, order-preserving desugaring are invariants of the specification's Desugar over all short token strings of a sugar-rich alphabet plus longer shapes; the real desugarer's output (with positions), the original tree after desugaring, a second desugaring of the same tree and the twice-desugared tree are compared by TLC; sugared notations (?:, method syntax) of well-typed programs are evaluated on all back ends against the specification's value of the explicit calls.", "TLA+ Desugar (YaeDesugar) + parser transcription; TLC invariants; trace validation of before/after/again/twice trees and of sugared-notation evaluations"),
 "C11": ("model_checking", "For every program of the universes the bytecode the REAL compiler emitted (bytes, constant pool, thunk bodies, exported by the verif hook) is verified structurally by the specification's verifier (complete decoding, operand kinds and ranges, forward jumps to instruction boundaries, one non-negative stack depth per offset, depth one at the final return), and the recorded run is checked never to execute an offset twice within one activation; the same verifier holds of the specification's own compilation scheme as a TLC invariant.", "TLA+ bytecode verifier (YaeVM!VerifyBC) applied by TLC to each implementation-emitted bytecode (per-program translation validation) + TLC invariant on the specified compilation scheme"),
 "C16": ("model_checking", "Every built-in / operator / access with an optional in every argument position: TLC compares observed acceptance with the specification's checker (only get(optional, default) and bare type variables admit it), and accepted programs evaluate without failure.", EVAL_TECH),
 "C17": ("model_checking", "TLC model-checks the type-equality and unification laws on the specification's transcription of types/{equals,unify}.go over all depth<=1 type pairs and pattern/ground tuples; every enumerated pair plus seeded deeper pairs (incl. shared sub-term pointers) is executed through types.Equals/types.Unify, and TLC judges each recorded observation (result, substitution, laws on the observed answers).", "TLA+ spec (YaeTypes) + TLC exhaustive enumeration + trace validation of recorded observations"),
}
NA_REASON = "check under construction in this session (specification module not yet bound to the code); see DESIGN.md section 5 for the plan"

def main():
    checks = []
    for p in props:
        if p["id"] in CLAIMS:
            lvl, text, tech = CLAIMS[p["id"]]
            checks.append(dict(property_id=p["id"], quick_cmd="./check %s --tier quick" % p["id"],
                thorough_cmd="./check %s --tier thorough" % p["id"], evidence_file="evidence/%s.json" % p["id"],
                replay_cmd_template="./check %s --replay {path}" % p["id"], engine="tlc-conformance",
                level_claimed=dict(category=lvl, text=text, design_ref="DESIGN.md section 5 " + p["id"]),
                level_note=TLC_TRUST, technique=tech))
    hooks = subprocess.run(["git", "-C", "/repo", "log", "--format=%h %s"], capture_output=True, text=True).stdout.splitlines()
    hook_commits = [l.split()[0] for l in hooks if "verif hooks" in l]
    m = dict(version=1, setup_cmd="./setup.sh",
      hooks=dict(guard="verif", enable="go build -tags verif (the harness module replaces github.com/goghcrow/yae => /repo and is rebuilt by every check)",
        baseline_off_cmd="cd /repo && GOFLAGS=-mod=mod GOPROXY=off GOSUMDB=off GOTOOLCHAIN=local go test -vet=off -count=1 ./...",
        source_commits=hook_commits, add_only=True),
      engines=[dict(name="tlc-conformance", path="check", serves_properties=sorted(CLAIMS),
        kind_free_text="TLA+ specification (spec/*.tla) checked with TLC; TLC-generated cases replayed into the Go code and recorded observations validated by TLC trace specifications")],
      checks=checks,
      notes="See DESIGN.md. ./check <id> exits 0 (held; KNOWN-FINDING lines allowed), 1 (VIOLATION line), 2 (infrastructure failure, not a verdict). Genuine defects found and repaired are listed in known_findings.json (fixed).",
      not_applicable=[dict(property_id=p["id"], reason=NA_REASON) for p in props if p["id"] not in CLAIMS])
    json.dump(m, open(os.path.join(ROOT, "MANIFEST.json"), "w"), indent=1)

if __name__ == "__main__":
    main()
