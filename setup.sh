#!/bin/bash
# Run once after a fresh restore (offline): regenerate the generated spec module and
# warm the Go build cache for the harness (it is rebuilt from /repo by every check).
set -e
cd "$(dirname "$0")"
python3 spec/gen_names.py
export GOFLAGS=-mod=mod GOPROXY=off GOSUMDB=off GOTOOLCHAIN=local
cd harness
[ -f /repo/go.sum ] && cp /repo/go.sum go.sum || touch go.sum
go build -tags verif -o /dev/null ./cmd/harness
echo setup ok
