---------------------------- MODULE YaeEval ----------------------------
(***************************************************************************)
(* The built-in function table (fun/gen.go, in registration order), the    *)
(* meaning of every built-in, a catalogue of user (host-registered)        *)
(* functions known to both the specification and the Go harness, and the   *)
(* big-step semantics Eval of checked core trees.  The closure compiler    *)
(* and the AST interpreter are this evaluator; the bytecode VM (YaeVM) is  *)
(* shown to refine it.                                                     *)
(*                                                                         *)
(* Result of evaluation:  [st, v, log]                                     *)
(*   st = "ok"                      v = value                              *)
(*   st = "fail", why \in {"index","key","mod0","regex"}   the language's  *)
(*                                  partial-operation failures             *)
(*   st = "ood"                     outside the exact number/text domain   *)
(*                                  of the specification: not judged       *)
(*   st = "stuck", kind             internal fault (never for a checked    *)
(*                                  program in a conforming environment)   *)
(*   log = host-call log: << [f |-> id, args |-> <<values>>], ... >>       *)
(***************************************************************************)
EXTENDS YaeValues

A == TVar("a")
K == TVar("k")
V == TVar("v")
LA == TList(A)
MKV == TMap(K, V)

Builtins == <<
  Fn("ABS_NUM", N_abs, <<TNum>>, TNum, FALSE),
  Fn("ADD_NUM", N_plus, <<TNum>>, TNum, FALSE),
  Fn("ADD_NUM_NUM", N_plus, <<TNum, TNum>>, TNum, FALSE),
  Fn("ADD_STR_STR", N_plus, <<TStr, TStr>>, TStr, FALSE),
  Fn("CEIL_NUM", N_ceil, <<TNum>>, TNum, FALSE),
  Fn("DIFF_LIST_LIST", N_diff, <<LA, LA>>, LA, FALSE),
  Fn("DIV_NUM_NUM", N_slash, <<TNum, TNum>>, TNum, FALSE),
  Fn("EQ_BOOL_BOOL", N_eqeq, <<TBool, TBool>>, TBool, FALSE),
  Fn("EQ_LIST_LIST", N_eqeq, <<LA, LA>>, TBool, FALSE),
  Fn("EQ_MAP_MAP", N_eqeq, <<MKV, MKV>>, TBool, FALSE),
  Fn("EQ_NUM_NUM", N_eqeq, <<TNum, TNum>>, TBool, FALSE),
  Fn("EQ_STR_STR", N_eqeq, <<TStr, TStr>>, TBool, FALSE),
  Fn("EQ_TIME_TIME", N_eqeq, <<TTime, TTime>>, TBool, FALSE),
  Fn("EXP_NUM_NUM", N_caret, <<TNum, TNum>>, TNum, FALSE),
  Fn("FLOOR_NUM", N_floor, <<TNum>>, TNum, FALSE),
  Fn("GET_LIST_NUM_ANY", N_get, <<LA, TNum, A>>, A, FALSE),
  Fn("GET_MAP_ANY_ANY", N_get, <<MKV, K, V>>, V, FALSE),
  Fn("GET_MAYBE", N_get, <<TMaybe(A), A>>, A, FALSE),
  Fn("GE_NUM_NUM", N_ge, <<TNum, TNum>>, TBool, FALSE),
  Fn("GE_TIME_TIME", N_ge, <<TTime, TTime>>, TBool, FALSE),
  Fn("GT_NUM_NUM", N_gt, <<TNum, TNum>>, TBool, FALSE),
  Fn("GT_TIME_TIME", N_gt, <<TTime, TTime>>, TBool, FALSE),
  Fn("IF_BOOL_ANY_ANY", N_if, <<TBool, A, A>>, A, TRUE),
  Fn("INTERSECT_LIST_LIST", N_intersect, <<LA, LA>>, LA, FALSE),
  Fn("ISSET_MAP_ANY", N_isset, <<MKV, K>>, TBool, FALSE),
  Fn("LEN_LIST", N_len, <<LA>>, TNum, FALSE),
  Fn("LEN_MAP", N_len, <<MKV>>, TNum, FALSE),
  Fn("LEN_STR", N_len, <<TStr>>, TNum, FALSE),
  Fn("LE_NUM_NUM", N_le, <<TNum, TNum>>, TBool, FALSE),
  Fn("LE_TIME_TIME", N_le, <<TTime, TTime>>, TBool, FALSE),
  Fn("LOGIC_AND_BOOL_BOOL", N_andand, <<TBool, TBool>>, TBool, TRUE),
  Fn("LOGIC_NOT_BOOL", N_bang, <<TBool>>, TBool, FALSE),
  Fn("LOGIC_OR_BOOL_BOOL", N_oror, <<TBool, TBool>>, TBool, TRUE),
  Fn("LT_NUM_NUM", N_lt, <<TNum, TNum>>, TBool, FALSE),
  Fn("LT_TIME_TIME", N_lt, <<TTime, TTime>>, TBool, FALSE),
  Fn("MATCH_STR_STR", N_match, <<TStr, TStr>>, TBool, FALSE),
  Fn("MAX_LIST", N_max, <<TList(TNum)>>, TNum, FALSE),
  Fn("MAX_NUM_NUM", N_max, <<TNum, TNum>>, TNum, FALSE),
  Fn("MIN_LIST", N_min, <<TList(TNum)>>, TNum, FALSE),
  Fn("MIN_NUM_NUM", N_min, <<TNum, TNum>>, TNum, FALSE),
  Fn("MOD_NUM_NUM", N_percent, <<TNum, TNum>>, TNum, FALSE),
  Fn("MUL_NUM_NUM", N_star, <<TNum, TNum>>, TNum, FALSE),
  Fn("NE_BOOL_BOOL", N_ne, <<TBool, TBool>>, TBool, FALSE),
  Fn("NE_LIST_LIST", N_ne, <<LA, LA>>, TBool, FALSE),
  Fn("NE_MAP_MAP", N_ne, <<MKV, MKV>>, TBool, FALSE),
  Fn("NE_NUM_NUM", N_ne, <<TNum, TNum>>, TBool, FALSE),
  Fn("NE_STR_STR", N_ne, <<TStr, TStr>>, TBool, FALSE),
  Fn("NE_TIME_TIME", N_ne, <<TTime, TTime>>, TBool, FALSE),
  Fn("PRINT_ANY", N_print, <<A>>, A, FALSE),
  Fn("ROUND_NUM", N_round, <<TNum>>, TNum, FALSE),
  Fn("STRING_ANY", N_string, <<A>>, TStr, FALSE),
  Fn("STRTOTIME_STR", N_strtotime, <<TStr>>, TTime, FALSE),
  Fn("SUB_NUM", N_minus, <<TNum>>, TNum, FALSE),
  Fn("SUB_NUM_NUM", N_minus, <<TNum, TNum>>, TNum, FALSE),
  Fn("SUB_TIME_TIME", N_minus, <<TTime, TTime>>, TNum, FALSE),
  Fn("UNION_LIST_LIST", N_union, <<LA, LA>>, LA, FALSE)
>>

(* ---- the user-function catalogue (the harness registers the same functions) ---- *)
ObjAB == TObj(<<Fld(N_a, TNum), Fld(N_b, TStr)>>)
TIncTy == TFun(N_tl, <<TNum>>, TNum)
UserFns == [
  U_T      |-> Fn("U_T", N_t, <<TNum, A>>, A, FALSE),             \* tracing identity: t(tag, x) = x
  U_ID     |-> Fn("U_ID", N_id, <<A>>, A, FALSE),
  U_PICK   |-> Fn("U_PICK", N_pick, <<A, A>>, A, FALSE),          \* first argument
  U_H      |-> Fn("U_H", N_h, <<ObjAB>>, TNum, FALSE),            \* field a, by name
  U_HN     |-> Fn("U_HN", N_hn, <<TObj(<<Fld(N_o, ObjAB)>>)>>, TNum, FALSE),      \* o.a of a record nested in a record (monomorphic)
  U_HNP    |-> Fn("U_HNP", N_hn, <<A>>, TStr, FALSE),             \* hn :: a -> str = "P" (polymorphic: tried after the monomorphic one)
  U_F      |-> Fn("U_F", N_f, <<TList(TNum), TList(TNum)>>, TNum, FALSE),   \* len + len
  U_LIF    |-> Fn("U_LIF", N_lif, <<TBool, A, A>>, A, TRUE),      \* lazy, like if
  U_TWICE  |-> Fn("U_TWICE", N_twice, <<A>>, A, TRUE),            \* forces its thunk twice
  U_NEVER  |-> Fn("U_NEVER", N_never, <<A>>, TNum, TRUE),         \* forces nothing, 0
  U_SECOND |-> Fn("U_SECOND", N_second, <<A, A>>, A, TRUE),       \* forces the second thunk only
  U_AND    |-> Fn("U_AND", N_and, <<TBool, TBool>>, TBool, TRUE),
  U_OR     |-> Fn("U_OR", N_or, <<TBool, TBool>>, TBool, TRUE),
  U_NOT    |-> Fn("U_NOT", N_not, <<TBool>>, TBool, FALSE),
  U_PAIR   |-> Fn("U_PAIR", N_pair, <<TNum, TNum>>, TList(TNum), FALSE),   \* the list of its two arguments
  U_GPOLY  |-> Fn("U_GPOLY", N_g, <<A>>, TNum, FALSE),            \* g :: a -> num   = 1
  U_GLIST  |-> Fn("U_GLIST", N_g, <<LA>>, TStr, FALSE),           \* g :: list[a] -> str = "L"
  U_GNUM   |-> Fn("U_GNUM", N_g, <<TNum>>, TNum, FALSE)           \* g :: num -> num = 3 (mono)
]
\* function table of an engine: functions registered before the first compilation
\* come first, then the built-ins (registered lazily by the first compilation)
\* (and those registered after it come last)
FunTable2(pre, post) == [i \in 1..Len(pre) |-> UserFns[pre[i]]] \o Builtins \o [i \in 1..Len(post) |-> UserFns[post[i]]]
FunTable(pre) == FunTable2(pre, <<>>)
IsUser(f) == f.id \in DOMAIN UserFns \/ f.id = "U_INC"

(* ---------------- results ---------------- *)
ROk(v, log) == [st |-> "ok", v |-> v, log |-> log]
RFail(why, log) == [st |-> "fail", why |-> why, log |-> log]
ROod(log) == [st |-> "ood", log |-> log]
RStuck(kind, log) == [st |-> "stuck", kind |-> kind, log |-> log]
\* pure results of built-ins
PV(v) == [st |-> "ok", v |-> v]
PFail(why) == [st |-> "fail", why |-> why]
POod == [st |-> "ood"]
PNum(n) == IF IsOOD(n) THEN POod ELSE PV(VNum(n))
PB3(b) == IF b = "U" THEN POod ELSE PV(VBool(b = "T"))

(* strtotime on the absolute forms the specification models:
   "@<digits>"  and  "YYYY-MM-DD HH:MM:SS" (TZ pinned to UTC)                *)
AllDigits(s) == s # <<>> /\ \A i \in 1..Len(s) : IsDigit(s[i])
StrToTime(s) ==
  IF Len(s) >= 2 /\ s[1] = 64 /\ AllDigits(Tail(s)) /\ Len(s) <= 10 THEN [ok |-> TRUE, t |-> DigitsToNat(Tail(s))]
  ELSE IF Len(s) = 19 /\ s[5] = 45 /\ s[8] = 45 /\ s[11] = 32 /\ s[14] = 58 /\ s[17] = 58
          /\ AllDigits(Sub(s, 1, 4)) /\ AllDigits(Sub(s, 6, 7)) /\ AllDigits(Sub(s, 9, 10))
          /\ AllDigits(Sub(s, 12, 13)) /\ AllDigits(Sub(s, 15, 16)) /\ AllDigits(Sub(s, 18, 19)) THEN
    LET y == DigitsToNat(Sub(s, 1, 4)) mo == DigitsToNat(Sub(s, 6, 7)) d == DigitsToNat(Sub(s, 9, 10))
        h == DigitsToNat(Sub(s, 12, 13)) mi == DigitsToNat(Sub(s, 15, 16)) se == DigitsToNat(Sub(s, 18, 19)) IN
    IF y >= 1971 /\ y <= 2037 /\ mo >= 1 /\ mo <= 12 /\ d >= 1 /\ d <= 28 /\ h <= 23 /\ mi <= 59 /\ se <= 59
    THEN [ok |-> TRUE, t |-> DaysFromCivil(y, mo, d) * 86400 + h * 3600 + mi * 60 + se]
    ELSE [ok |-> FALSE]
  ELSE [ok |-> FALSE]

\* regexp.MatchString for the patterns the specification models: a pattern made of
\* letters, digits and spaces matches iff it occurs in the subject; the patterns
\* "(", "[", "*", "a(" are invalid (regex failure)
PlainPattern(p) == \A i \in 1..Len(p) : (p[i] >= 48 /\ p[i] <= 57) \/ (p[i] >= 65 /\ p[i] <= 90) \/ (p[i] >= 97 /\ p[i] <= 122) \/ p[i] = 32
Occurs0(p, s) == \E at \in 1..(Len(s) - Len(p) + 1) : IsPrefixAt(p, s, at)
InvalidPatterns == {<<40>>, <<91>>, <<42>>, <<97, 40>>, <<43>>, <<63>>, <<92>>}

ListIndex(els, n) ==        \* language semantics of xs[i]: truncate toward zero, then 0 <= i < len
  IF n.k = "fin" THEN
    (IF n.e # 0 /\ n.s = 0 /\ n.e < 0 /\ n.n > 0 THEN [st |-> "ood"]       \* just below an integer
     ELSE IF n.e # 0 /\ n.s = 0 /\ n.e > 0 /\ n.n < 0 THEN [st |-> "ood"]
     ELSE LET i == TruncI([n EXCEPT !.e = 0]) IN
          IF i >= 0 /\ i < Len(els) THEN [st |-> "ok", i |-> i + 1] ELSE [st |-> "out"])
  ELSE IF n.k = "nzero" THEN (IF Len(els) > 0 THEN [st |-> "ok", i |-> 1] ELSE [st |-> "out"])
  ELSE IF n.k \in {"big", "inf", "nan"} THEN [st |-> "out"]
  ELSE [st |-> "ood"]

NumsOf(els) == [i \in 1..Len(els) |-> els[i].v]
FoldNum(Op(_, _), ns) == FoldLeft(LAMBDA acc, x : IF IsOOD(acc) THEN OOD ELSE Op(acc, x), ns[1], Tail(ns))

\* instants: whole seconds v, optionally nanoseconds ns within the second
TNs(t) == IF "ns" \in DOMAIN t THEN t.ns ELSE 0
QuarterNs(t) == TNs(t) % 250000000 = 0
TCmp(x, y) == IF x.v # y.v THEN (IF x.v < y.v THEN -1 ELSE 1) ELSE IF TNs(x) < TNs(y) THEN -1 ELSE IF TNs(x) > TNs(y) THEN 1 ELSE 0
(* ---------------- meaning of the strict built-ins ---------------- *)
ApplyBuiltin(id, a) ==
  CASE id = "ABS_NUM" -> PNum(NumAbs(a[1].v))
    [] id = "ADD_NUM" -> PV(a[1])
    [] id = "ADD_NUM_NUM" -> PNum(NumAdd(a[1].v, a[2].v))
    [] id = "ADD_STR_STR" -> PV(VStr(a[1].v \o a[2].v))
    [] id = "CEIL_NUM" -> PNum(NumCeil(a[1].v))
    [] id = "FLOOR_NUM" -> PNum(NumFloor(a[1].v))
    [] id = "ROUND_NUM" -> PNum(NumRound(a[1].v))
    [] id = "SUB_NUM" -> PNum(NumNeg(a[1].v))
    [] id = "SUB_NUM_NUM" -> PNum(NumSub(a[1].v, a[2].v))
    \* time.Sub(...).Seconds(): whole seconds plus quarters of a second are exact
    [] id = "SUB_TIME_TIME" -> IF TNs(a[1]) = 0 /\ TNs(a[2]) = 0 THEN PNum(NInt(a[1].v - a[2].v))
                               ELSE IF QuarterNs(a[1]) /\ QuarterNs(a[2]) /\ AbsI(a[1].v - a[2].v) < 100000000
                               THEN PNum(Fin(4 * (a[1].v - a[2].v) + (TNs(a[1]) - TNs(a[2])) \div 250000000, 2, 0)) ELSE POod
    [] id = "MUL_NUM_NUM" -> PNum(NumMul(a[1].v, a[2].v))
    [] id = "DIV_NUM_NUM" -> PNum(NumDiv(a[1].v, a[2].v))
    [] id = "MOD_NUM_NUM" -> LET r == NumMod(a[1].v, a[2].v) IN IF r.k = "mod0" THEN PFail("mod0") ELSE PNum(r)
    [] id = "EXP_NUM_NUM" -> PNum(NumPow(a[1].v, a[2].v))
    [] id = "MAX_NUM_NUM" -> PNum(NumMax(a[1].v, a[2].v))
    [] id = "MIN_NUM_NUM" -> PNum(NumMin(a[1].v, a[2].v))
    [] id = "MAX_LIST" -> IF a[1].els = <<>> THEN PNum(Zero) ELSE PNum(FoldNum(NumMax, NumsOf(a[1].els)))
    [] id = "MIN_LIST" -> IF a[1].els = <<>> THEN PNum(Zero) ELSE PNum(FoldNum(NumMin, NumsOf(a[1].els)))
    [] id = "EQ_NUM_NUM" -> PB3(NumEQ(a[1].v, a[2].v))
    [] id = "NE_NUM_NUM" -> PB3(NumNE(a[1].v, a[2].v))
    [] id = "LT_NUM_NUM" -> PB3(NumLT(a[1].v, a[2].v))
    [] id = "LE_NUM_NUM" -> PB3(NumLE(a[1].v, a[2].v))
    [] id = "GT_NUM_NUM" -> PB3(NumGT(a[1].v, a[2].v))
    [] id = "GE_NUM_NUM" -> PB3(NumGE(a[1].v, a[2].v))
    [] id \in {"EQ_BOOL_BOOL", "EQ_STR_STR"} -> PV(VBool(a[1].v = a[2].v))
    [] id \in {"NE_BOOL_BOOL", "NE_STR_STR"} -> PV(VBool(a[1].v # a[2].v))
    [] id = "EQ_TIME_TIME" -> PV(VBool(TCmp(a[1], a[2]) = 0))
    [] id = "NE_TIME_TIME" -> PV(VBool(TCmp(a[1], a[2]) # 0))
    [] id = "LT_TIME_TIME" -> PV(VBool(TCmp(a[1], a[2]) < 0))
    [] id = "LE_TIME_TIME" -> PV(VBool(TCmp(a[1], a[2]) <= 0))
    [] id = "GT_TIME_TIME" -> PV(VBool(TCmp(a[1], a[2]) > 0))
    [] id = "GE_TIME_TIME" -> PV(VBool(TCmp(a[1], a[2]) >= 0))
    [] id \in {"EQ_LIST_LIST", "EQ_MAP_MAP"} -> PB3(ValEq(a[1], a[2]))
    [] id \in {"NE_LIST_LIST", "NE_MAP_MAP"} -> PB3(Not3(ValEq(a[1], a[2])))
    [] id = "LOGIC_NOT_BOOL" -> PV(VBool(~a[1].v))
    [] id = "LEN_STR" -> PNum(NInt(Len(a[1].v)))
    [] id = "LEN_LIST" -> PNum(NInt(Len(a[1].els)))
    [] id = "LEN_MAP" -> PNum(NInt(Len(a[1].ents)))
    [] id = "GET_LIST_NUM_ANY" ->           \* total: the default unless 0 <= trunc(i) < len
         LET ix == ListIndex(a[1].els, a[2].v) IN
         IF ix.st = "ood" THEN POod ELSE IF ix.st = "ok" THEN PV(a[1].els[ix.i]) ELSE PV(a[3])
    [] id = "GET_MAP_ANY_ANY" ->
         IF ~KeyKnown(a[2]) THEN POod
         ELSE LET i == EntIdx(a[1].ents, a[2].k, KeyText(a[2])) IN IF i = 0 THEN PV(a[3]) ELSE PV(a[1].ents[i].val)
    [] id = "ISSET_MAP_ANY" ->
         IF ~KeyKnown(a[2]) THEN POod ELSE PV(VBool(EntIdx(a[1].ents, a[2].k, KeyText(a[2])) # 0))
    [] id = "GET_MAYBE" -> IF a[1].some THEN PV(a[1].v) ELSE PV(a[2])
    [] id \in {"UNION_LIST_LIST", "INTERSECT_LIST_LIST", "DIFF_LIST_LIST"} ->
         IF ~TextKnown(a[1]) \/ ~TextKnown(a[2]) THEN POod
         ELSE PV(VList(a[1].ty, CASE id = "UNION_LIST_LIST" -> SetUnion(a[1].els, a[2].els)
                                  [] id = "INTERSECT_LIST_LIST" -> SetIntersect(a[1].els, a[2].els)
                                  [] OTHER -> SetDiff(a[1].els, a[2].els)))
    [] id = "MATCH_STR_STR" ->
         IF a[1].v \in InvalidPatterns THEN PFail("regex")
         ELSE IF PlainPattern(a[1].v) THEN PV(VBool(Occurs0(a[1].v, a[2].v)))
         ELSE POod
    [] id = "STRING_ANY" -> IF TextKnown(a[1]) /\ a[1].k # "fun" THEN PV(VStr(Display(a[1]))) ELSE POod
    [] id = "PRINT_ANY" -> PV(a[1])
    [] id = "STRTOTIME_STR" -> LET r == StrToTime(a[1].v) IN IF r.ok THEN PV(VTime(r.t)) ELSE POod
    \* strict user functions
    [] id = "U_T" -> PV(a[2])
    [] id = "U_ID" -> PV(a[1])
    [] id = "U_PICK" -> PV(a[1])
    [] id = "U_H" -> PV(a[1].vals[FieldIdx(a[1].ty.fs, N_a)])
    [] id = "U_HN" -> LET o == a[1].vals[FieldIdx(a[1].ty.fs, N_o)] IN PV(o.vals[FieldIdx(o.ty.fs, N_a)])
    [] id = "U_HNP" -> PV(VStr(<<80>>))
    [] id = "U_F" -> PNum(NInt(Len(a[1].els) + Len(a[2].els)))
    [] id = "U_NOT" -> PV(VBool(~a[1].v))
    [] id = "U_PAIR" -> PV(VList(TList(TNum), <<a[1], a[2]>>))
    [] id = "U_GPOLY" -> PNum(NInt(1))
    [] id = "U_GLIST" -> PV(VStr(<<76>>))
    [] id = "U_GNUM" -> PNum(NInt(3))
    [] id = "U_INC" -> PNum(NumAdd(a[1].v, One))
    [] OTHER -> [st |-> "stuck", kind |-> "no-such-function"]

LogCall(log, id, args) == Append(log, [f |-> id, args |-> args])

(***************************************************************************)
(* Big-step evaluation of a CHECKED tree (Check(...).e) in environment     *)
(* venv = << [n |-> name, v |-> value], ... >>.                            *)
(* Strict positions are evaluated left to right, each exactly once; lazy   *)
(* callees receive their arguments unevaluated (uncached thunks).          *)
(***************************************************************************)
VEnvIdx(venv, name) == IF \E i \in 1..Len(venv) : venv[i].n = name
                       THEN CHOOSE i \in 1..Len(venv) : venv[i].n = name ELSE 0

RECURSIVE Eval(_, _, _, _), EvalSeq(_, _, _, _, _, _)
\* evaluates es[i..] left to right, accumulating values; stops at the first non-ok
EvalSeq(es, i, acc, venv, funs, log) ==
  IF i > Len(es) THEN [st |-> "ok", vs |-> acc, log |-> log]
  ELSE LET r == Eval(es[i], venv, funs, log) IN
       IF r.st # "ok" THEN r ELSE EvalSeq(es, i + 1, Append(acc, r.v), venv, funs, r.log)

Eval(e, venv, funs, log) ==
  CASE e.k \in {"num", "str", "bool", "time"} -> ROk([k |-> e.k, v |-> e.v], log)
    [] e.k = "list" ->
         LET r == EvalSeq(e.els, 1, <<>>, venv, funs, log) IN
         IF r.st # "ok" THEN r ELSE ROk(VList(e.ty, r.vs), r.log)
    [] e.k = "obj" ->
         LET r == EvalSeq([i \in 1..Len(e.fs) |-> e.fs[i].v], 1, <<>>, venv, funs, log) IN
         IF r.st # "ok" THEN r ELSE ROk(VObj(e.ty, r.vs), r.log)
    [] e.k = "map" ->
         \* key then value, pair by pair; a later identical key replaces the earlier entry
         LET flat == [i \in 1..(2 * Len(e.ps)) |-> IF i % 2 = 1 THEN e.ps[(i + 1) \div 2].key ELSE e.ps[i \div 2].val]
             r == EvalSeq(flat, 1, <<>>, venv, funs, log) IN
         IF r.st # "ok" THEN r
         ELSE IF \E i \in 1..Len(e.ps) : ~KeyKnown(r.vs[2 * i - 1]) THEN ROod(r.log)
         ELSE ROk(VMap(e.ty, FoldLeft(LAMBDA ents, i : MapPut(ents, r.vs[2 * i - 1], r.vs[2 * i]),
                                       <<>>, [i \in 1..Len(e.ps) |-> i])), r.log)
    [] e.k = "id" ->
         LET i == VEnvIdx(venv, e.n) IN
         IF i = 0 THEN RStuck("unbound", log) ELSE ROk(venv[i].v, log)
    [] e.k = "mem" ->
         LET r == Eval(e.x, venv, funs, log) IN
         IF r.st # "ok" THEN r
         ELSE IF r.v.k # "obj" THEN RStuck("not-an-object", r.log)
         ELSE LET j == FieldIdx(r.v.ty.fs, e.n) IN          \* by NAME, in the value's own layout
              IF j = 0 THEN RStuck("no-field", r.log) ELSE ROk(r.v.vals[j], r.log)
    [] e.k = "sub" ->
         LET x == Eval(e.x, venv, funs, log) IN
         IF x.st # "ok" THEN x ELSE
         LET i == Eval(e.i, venv, funs, x.log) IN
         IF i.st # "ok" THEN i
         ELSE IF e.xk = "list" THEN
                (IF x.v.k # "list" \/ i.v.k # "num" THEN RStuck("bad-subscript", i.log)
                 ELSE LET ix == ListIndex(x.v.els, i.v.v) IN
                      IF ix.st = "ood" THEN ROod(i.log)
                      ELSE IF ix.st = "ok" THEN ROk(x.v.els[ix.i], i.log) ELSE RFail("index", i.log))
         ELSE (IF x.v.k # "map" THEN RStuck("bad-subscript", i.log)
               ELSE IF ~KeyKnown(i.v) THEN ROod(i.log)
               ELSE LET j == EntIdx(x.v.ents, i.v.k, KeyText(i.v)) IN
                    IF j = 0 THEN RFail("key", i.log) ELSE ROk(x.v.ents[j].val, i.log))
    [] e.k = "call" ->
         IF e.res.kind = "static" THEN
           LET f == funs[e.res.fi] IN
           IF f.lazy THEN
             \* lazy callee: arguments are thunks, forced by the callee on demand
             LET F(i, lg) == Eval(e.args[i], venv, funs, lg)
                 lg0 == IF IsUser(f) THEN LogCall(log, f.id, <<>>) ELSE log IN
             CASE f.id \in {"IF_BOOL_ANY_ANY", "U_LIF"} ->
                    LET c == F(1, lg0) IN
                    IF c.st # "ok" THEN c ELSE IF c.v.v THEN F(2, c.log) ELSE F(3, c.log)
               [] f.id \in {"LOGIC_AND_BOOL_BOOL", "U_AND"} ->
                    LET c == F(1, lg0) IN
                    IF c.st # "ok" THEN c ELSE IF c.v.v THEN F(2, c.log) ELSE ROk(VBool(FALSE), c.log)
               [] f.id \in {"LOGIC_OR_BOOL_BOOL", "U_OR"} ->
                    LET c == F(1, lg0) IN
                    IF c.st # "ok" THEN c ELSE IF c.v.v THEN ROk(VBool(TRUE), c.log) ELSE F(2, c.log)
               [] f.id = "U_TWICE" ->
                    LET c == F(1, lg0) IN IF c.st # "ok" THEN c ELSE F(1, c.log)
               [] f.id = "U_NEVER" -> ROk(VNum(Zero), lg0)
               [] f.id = "U_SECOND" -> F(2, lg0)
               [] OTHER -> RStuck("no-such-lazy-function", log)
           ELSE
             LET as == EvalSeq(e.args, 1, <<>>, venv, funs, log) IN
             IF as.st # "ok" THEN as
             ELSE LET lg == IF IsUser(f) THEN LogCall(as.log, f.id, as.vs) ELSE as.log
                      r == ApplyBuiltin(f.id, as.vs) IN
                  CASE r.st = "ok" -> ROk(r.v, lg)
                    [] r.st = "fail" -> RFail(r.why, lg)
                    [] r.st = "ood" -> ROod(lg)
                    [] OTHER -> RStuck(r.kind, lg)
         ELSE
           \* dynamic call: callee first, then the arguments, all strict
           LET c == Eval(e.f, venv, funs, log) IN
           IF c.st # "ok" THEN c
           ELSE IF c.v.k # "fun" THEN RStuck("not-a-function", c.log)
           ELSE LET as == EvalSeq(e.args, 1, <<>>, venv, funs, c.log) IN
                IF as.st # "ok" THEN as
                ELSE LET lg == LogCall(as.log, c.v.fid, as.vs)
                         r == ApplyBuiltin(c.v.fid, as.vs) IN
                     CASE r.st = "ok" -> ROk(r.v, lg)
                       [] r.st = "fail" -> RFail(r.why, lg)
                       [] r.st = "ood" -> ROod(lg)
                       [] OTHER -> RStuck(r.kind, lg)
    [] OTHER -> RStuck("not-core", log)

\* input values carry map entries as [key, val] pairs; the specification computes the key texts
RECURSIVE InVal(_)
InVal(j) ==
  CASE j.k = "list" -> VList(j.ty, [i \in 1..Len(j.els) |-> InVal(j.els[i])])
    [] j.k = "obj" -> VObj(j.ty, [i \in 1..Len(j.vals) |-> InVal(j.vals[i])])
    [] j.k = "map" -> VMap(j.ty, FoldLeft(LAMBDA ents, p : MapPut(ents, InVal(p.key), InVal(p.val)), <<>>, j.ents))
    [] j.k = "maybe" -> IF j.some THEN VJust(j.ty.el, InVal(j.v)) ELSE VNothing(j.ty.el)
    [] OTHER -> j
InEnv(env) == [i \in 1..Len(env) |-> [n |-> env[i].n, v |-> InVal(env[i].v)]]

\* function values are projected without their identity
RECURSIVE Proj(_)
Proj(v) ==
  CASE v.k = "list" -> [v EXCEPT !.els = [i \in 1..Len(v.els) |-> Proj(v.els[i])]]
    [] v.k = "map" -> [v EXCEPT !.ents = [i \in 1..Len(v.ents) |-> [v.ents[i] EXCEPT !.val = Proj(@)]]]
    [] v.k = "obj" -> [v EXCEPT !.vals = [i \in 1..Len(v.vals) |-> Proj(v.vals[i])]]
    [] v.k = "maybe" -> IF v.some THEN [v EXCEPT !.v = Proj(@)] ELSE v
    [] v.k = "fun" -> [k |-> "fun", ty |-> v.ty]
    [] OTHER -> v
\* the type environment an environment of values induces
TEnvOf(venv) == [i \in 1..Len(venv) |-> [n |-> venv[i].n, t |-> TypeOfVal(venv[i].v)]]
ConformingEnv(venv) == \A i \in 1..Len(venv) : WellFormed(venv[i].v)

\* whole pipeline from a core tree: check, then evaluate
Run2(e, venv, pre, post) ==
  LET funs == FunTable2(pre, post)
      c == Check(e, TEnvOf(venv), funs) IN
  IF ~c.ok THEN [acc |-> FALSE, why |-> c.why]
  ELSE [acc |-> TRUE, ty |-> c.ty, e |-> c.e, r |-> Eval(c.e, venv, funs, <<>>)]
Run(e, venv, pre) == Run2(e, venv, pre, <<>>)
=============================================================================
