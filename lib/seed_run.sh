#!/bin/bash
# usage: seed_run.sh <seed-dir-name> <property> [tier]  -- applies a seeded change to /repo, runs the check, undoes it
set -u
S=/verif/seeded/$1; P=$2; T=${3:-quick}
cd /repo || exit 9
if [ -n "$(git status --porcelain)" ]; then echo "/repo not clean"; exit 9; fi
# the evidence file belongs to runs on the unchanged tree: keep it
cp /verif/evidence/$P.json /var/tmp/evidence.$P.$$.json 2>/dev/null
trap 'git -C /repo checkout -- . ; git -C /repo clean -fdq; [ -f /var/tmp/evidence.$P.$$.json ] && mv /var/tmp/evidence.$P.$$.json /verif/evidence/$P.json' EXIT
git apply $S/patch.diff || { echo "patch does not apply"; exit 8; }
cd /verif && ./check $P --tier $T > /tmp/seedrun.$1.$P.log 2>&1
rc=$?
echo "$1 vs $P ($T): exit $rc; $(grep -c '^VIOLATION' /tmp/seedrun.$1.$P.log) violation line(s); $(grep -c '^KNOWN-FINDING' /tmp/seedrun.$1.$P.log) known"
grep -m2 "rejected conjuncts\|INFRA" /tmp/seedrun.$1.$P.log
exit $rc
