---------------------------- MODULE YaeIO ----------------------------
(***************************************************************************)
(* NDJSON plumbing shared by generator roots (TLC -> Go: cases) and trace  *)
(* roots (Go -> TLC: observations; TLC -> driver: one verdict per record). *)
(* File names and parameters arrive as CONSTANTS of the generated .cfg.      *)
(***************************************************************************)
EXTENDS Integers, Sequences, TLC, IOUtils, Json

\* set by the driver in the generated .cfg (IOEnv lookups are not cached by TLC: too slow)
CONSTANTS P_OUT,        \* generator: NDJSON file the cases are appended to
          P_OBS,        \* trace: NDJSON file of observation records
          P_VERDICT,    \* trace: NDJSON file the verdicts are appended to
          P_CHUNKS,     \* trace: number of chunks validated in parallel
          P_MODE,       \* root-specific string parameter (universe / variant)
          P_SIZE        \* root-specific integer parameter (bound)

NDJ == [format |-> "NDJSON", charset |-> "UTF-8", openOptions |-> <<"WRITE", "CREATE", "APPEND">>]
EmitTo(file, rec) == Serialize(<<rec>>, file, NDJ)

\* ---- generator side
CaseFile == P_OUT
EmitCase(rec) == EmitTo(CaseFile, rec)

\* ---- trace side: the observation file is split into NChunks consecutive chunks,
\* each validated record by record (one step per record) by its own chain of states,
\* so that TLC's workers validate chunks in parallel.
ObsLoaded == ndJsonDeserialize(P_OBS)
NChunks == P_CHUNKS
VerdictFile == P_VERDICT
ChunkLo(c, n) == ((c - 1) * n) \div NChunks + 1
ChunkHi(c, n) == (c * n) \div NChunks
\* why: set of names of the failed conjuncts (empty = accepted); skip: reason or ""
EmitVerdict(id, why, skip) == EmitTo(VerdictFile, [id |-> id, why |-> why, skip |-> skip])
=============================================================================
