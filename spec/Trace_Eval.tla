---------------------------- MODULE Trace_Eval ----------------------------
(***************************************************************************)
(* Mode C for the evaluation family (C01 C02 C03 C04 C05 C06 C10 C13 C16): *)
(* one observation record = one program + environment + user functions run *)
(* through the real pipeline on the four back ends.  The specification     *)
(* recomputes acceptance, type, value / failure and host-call log and      *)
(* names every conjunct that the observation fails.                        *)
(*   record: [id, e, env, pre, obs |-> [front, ast, infer, runs]]          *)
(***************************************************************************)
EXTENDS YaeUniverse, YaeIO

Obs == ObsLoaded
N == Len(Obs)
VARIABLE st

Backends == {"vm", "vmct", "closure", "interp"}

SameVal(o, s) == NormVal(o) = NormVal(Proj(s))
LogProj(log) == [i \in 1..Len(log) |-> [f |-> log[i].f, args |-> [j \in 1..Len(log[i].args) |-> NormVal(Proj(log[i].args[j]))]]]
LogNorm(log) == [i \in 1..Len(log) |-> [f |-> log[i].f, args |-> [j \in 1..Len(log[i].args) |-> NormVal(log[i].args[j])]]]

AllowedKinds(why) ==
  CASE why = "index" -> {"assert-index", "rt-bounds"}
    [] why = "key" -> {"assert-key"}
    [] why = "mod0" -> {"rt-divide"}
    [] why = "regex" -> {"regex"}
    [] OTHER -> {}
DocumentedKinds == {"assert-index", "rt-bounds", "assert-key", "rt-divide", "regex"}

RECURSIVE HasCall(_, _)
HasCall(e, name) ==
  CASE e.k = "call" -> (e.f.k = "id" /\ e.f.n = name) \/ HasCall(e.f, name) \/ \E i \in 1..Len(e.args) : HasCall(e.args[i], name)
    [] e.k = "list" -> \E i \in 1..Len(e.els) : HasCall(e.els[i], name)
    [] e.k = "map" -> \E i \in 1..Len(e.ps) : HasCall(e.ps[i].key, name) \/ HasCall(e.ps[i].val, name)
    [] e.k = "obj" -> \E i \in 1..Len(e.fs) : HasCall(e.fs[i].v, name)
    [] e.k = "sub" -> HasCall(e.x, name) \/ HasCall(e.i, name)
    [] e.k = "mem" -> HasCall(e.x, name)
    [] OTHER -> FALSE

\* a case names a standard environment or carries its own
RunOf(rec) == IF "envid" \in DOMAIN rec THEN Run2(rec.e, InEnv(StdEnvIn(rec.envid)), StdPre(rec.envid), StdPost(rec.envid))
              ELSE Run2(rec.e, InEnv(rec.env), rec.pre, IF "post" \in DOMAIN rec THEN rec.post ELSE <<>>)

BackendWhy(b, o, run, ity) ==
  \* o: the observed outcome of back end b; run: the specification's Run; ity: observed inferred type
  LET acc == run.acc
      r == IF acc THEN run.r ELSE [st |-> "none"] IN
  (IF acc = (o.class # "reject") /\ o.class # "compile-panic" THEN {} ELSE {"accept_" \o b})
  \* C01 / C02 speak about whatever the CODE accepted, whether or not the specification accepts it
  \cup (IF o.class = "value" /\ ~HasType(o.v, ity) THEN {"hastype_" \o b} ELSE {})
  \cup (IF o.class = "fail" /\ o.kind \notin DocumentedKinds THEN {"nofault_" \o b} ELSE {})
  \* it stops exactly when the semantics says so: no failure where a value is defined
  \cup (IF acc /\ r.st = "ok" /\ o.class = "fail" THEN {"nofail_" \o b} ELSE {})
  \cup (IF acc /\ r.st = "ok" /\ ~(o.class = "value" /\ SameVal(o.v, r.v)) THEN {"value_" \o b} ELSE {})
  \cup (IF acc /\ r.st = "fail" /\ ~(o.class = "fail" /\ o.kind \in AllowedKinds(r.why)) THEN {"failclass_" \o b} ELSE {})
  \cup (IF acc /\ r.st = "stuck" THEN {"specstuck_" \o b} ELSE {})
  \* C18: the canonical rendering (val.String) of the result is the specification's Render
  \cup (IF acc /\ r.st = "ok" /\ o.class = "value" /\ TextKnown(r.v) /\ "rtext" \in DOMAIN o /\ o.rtext # Render(r.v) THEN {"render_" \o b} ELSE {})
  \* C18 on the observed answers of a pair program: ==, rendering, set membership, key identity all agree
  \cup (IF o.class = "value" /\ o.v.k = "list" /\ Len(o.v.els) >= 5 /\ (\A i \in 1..Len(o.v.els) : o.v.els[i].k = "bool")
           /\ (\E i \in 1..Len(o.v.els) : o.v.els[i].v # o.v.els[1].v) /\ run.acc /\ r.st \in {"ok"} THEN {"sameness_" \o b} ELSE {})
  \cup (IF acc /\ r.st \in {"ok", "fail"} /\ o.class \in {"value", "fail"} /\ LogNorm(o.log) # LogProj(r.log) THEN {"log_" \o b} ELSE {})

\* programs at the limit of the VM's encoding (flag big; not evaluated by the specification): the back ends that ran agree,
\* and only the two VM loops may have refused
JudgeBig(rec) ==
  LET o == rec.obs IN
  IF "died" \in DOMAIN o THEN {"total"}
  \* (the interpreter is left out: built from a tree, outside the facade, the harness cannot give it the engine's
  \*  run-time function table)
  ELSE LET ran == {b \in Backends \ {"interp"} : o.runs[b].class \in {"value", "fail"}} IN
       (IF o.runs["closure"].class \notin {"value", "fail"} THEN {"accept_closure"} ELSE {})
       \cup (IF \E b1, b2 \in ran \ {"vmct"} : o.runs[b1].class # o.runs[b2].class
                                     \/ (o.runs[b1].class = "value" /\ NormVal(o.runs[b1].v) # NormVal(o.runs[b2].v))
             THEN {"agree"} ELSE {})
       \cup (IF "vmct" \in ran /\ \E b \in ran : o.runs[b].class # o.runs["vmct"].class
                                     \/ (o.runs[b].class = "value" /\ NormVal(o.runs[b].v) # NormVal(o.runs["vmct"].v))
             THEN {"agree_vmct"} ELSE {})
Judge(rec) ==
  IF "big" \in DOMAIN rec THEN JudgeBig(rec) ELSE
  LET o == rec.obs
      died == "died" \in DOMAIN o
      run == RunOf(rec)
      ity == IF died THEN TBot ELSE o.infer.ty
      perB0 == IF died THEN {} ELSE UNION {BackendWhy(b, o.runs[b], run, ity) : b \in Backends}
      \* C18 speaks about numbers that are identical or differ by more than the tolerance
      perB == IF InBandPair(rec.e) THEN perB0 \ {"sameness_" \o b : b \in Backends} ELSE perB0
      ran == IF died THEN {} ELSE {b \in Backends : o.runs[b].class \in {"value", "fail"}}
      Same2(b1, b2) == /\ o.runs[b1].class = o.runs[b2].class
                       /\ (o.runs[b1].class = "value" => NormVal(o.runs[b1].v) = NormVal(o.runs[b2].v))
                       /\ LogNorm(o.runs[b1].log) = LogNorm(o.runs[b2].log)
      \* (the call-threaded loop separately: its known instruction limit must not hide a disagreement of the others)
      agree == \A b1, b2 \in ran \ {"vmct"} : Same2(b1, b2)
      agreeCT == "vmct" \notin ran \/ \A b \in ran : Same2("vmct", b)
      quiet == \A b \in ran : o.runs[b].stdout = <<>>
  IN (IF died THEN {"total"} ELSE {})
     \cup (IF ~died /\ ~(o.front.class = "ok" /\ o.ast = rec.e) THEN {"front"} ELSE {})
     \cup (IF ~died /\ o.infer.acc # run.acc THEN {"accept"} ELSE {})
     \* (types that differ in the order of record fields only are the same type: C17)
     \cup (IF ~died /\ run.acc /\ o.infer.acc /\ ~TypeEq(o.infer.ty, run.ty) THEN {"type"} ELSE {})
     \cup perB
     \cup (IF ~died /\ ~agree THEN {"agree"} ELSE {})
     \cup (IF ~died /\ ~agreeCT THEN {"agree_vmct"} ELSE {})
     \cup (IF ~died /\ ~HasCall(rec.e, N_print) /\ ~quiet THEN {"stdout"} ELSE {})

Skip(rec) == IF "big" \in DOMAIN rec THEN "" ELSE
             LET run == RunOf(rec) IN
             IF run.acc /\ run.r.st = "ood" THEN "ood" ELSE ""

Init == st \in {[c |-> c, l |-> ChunkLo(c, N)] : c \in 1..NChunks}
Next == /\ st.l <= ChunkHi(st.c, N)
        /\ EmitVerdict(Obs[st.l].id, Judge(Obs[st.l]), Skip(Obs[st.l]))
        /\ st' = [st EXCEPT !.l = @ + 1]
=============================================================================
